"""Document sets generated *from meaning*: an abstract graph (nodes keyed by (URI, id type, identifier),
reference triples, model metadata) and random NodeSet2 serialisations of it.  The abstract graph is the
oracle, independent of both the Lean model and the implementation."""
import io
from xml.sax.saxutils import escape, quoteattr

import gen
import minibase
import values

UA = minibase.UA
NS_XSD = "http://opcfoundation.org/UA/2011/03/UANodeSet.xsd"
NS_TYPES = "http://opcfoundation.org/UA/2008/02/Types.xsd"
CLASSES = ["UAObjectType", "UAObject", "UAVariableType", "UAVariable", "UADataType", "UAReferenceType", "UAView", "UAMethod"]
# attribute subsets that are valid per node class (UANodeSet.xsd)
ATTRS = {
    "UAObject": ["EventNotifier", "SymbolicName", "WriteMask", "ParentNodeId"],
    "UAObjectType": ["IsAbstract", "SymbolicName", "WriteMask"],
    "UAVariable": ["DataType", "ValueRank", "ArrayDimensions", "AccessLevel", "UserAccessLevel", "MinimumSamplingInterval",
                   "Historizing", "SymbolicName", "ParentNodeId"],
    "UAVariableType": ["DataType", "ValueRank", "ArrayDimensions", "IsAbstract", "SymbolicName"],
    "UADataType": ["IsAbstract", "SymbolicName"],
    "UAReferenceType": ["IsAbstract", "Symmetric", "SymbolicName"],
    "UAView": ["EventNotifier", "SymbolicName", "ParentNodeId"],
    "UAMethod": ["MethodDeclarationId", "SymbolicName", "ParentNodeId"],
}
BASE = lambda i: (UA, "i", str(i))   # noqa: E731
REFTYPES = {"HasComponent": 47, "HasProperty": 46, "Organizes": 35, "HasTypeDefinition": 40, "HasSubtype": 45, "HasModellingRule": 37}
VALUE_DT = {"Boolean": 1, "SByte": 2, "Byte": 3, "Int16": 4, "UInt16": 5, "Int32": 6, "UInt32": 7, "Int64": 8, "UInt64": 9, "Float": 10,
            "Double": 11, "String": 12, "DateTime": 13, "Guid": 14, "ByteString": 15, "NodeId": 17, "LocalizedText": 21,
            "XmlElement": 16, "EURange": 884, "EngineeringUnits": 887}


def rand_ident(rng, hostile):
    t = rng.choice("iiisssgb")
    if t == "i":
        return t, str(rng.choice([1, 2, 3, 5, 1000, 1001, 2253, 4294967295]) + rng.randint(0, 5000))
    if t == "g":
        return t, "%08x-%04x-%04x-%04x-%012x" % (rng.getrandbits(32), rng.getrandbits(16), rng.getrandbits(16), rng.getrandbits(16), rng.getrandbits(48))
    if t == "b":
        return t, rng.choice(["YWJj", "AA==", "M7w="]) + str(rng.randint(0, 99))
    s = gen.hostile_text(rng, maxparts=3, allow_ws_edges=False, allow_empty=False,
                         pool=[gen.WORDS, gen.WORDS, gen.SYNTAX, gen.XML_SPECIAL, gen.NONASCII] if hostile else [gen.WORDS])
    return t, s + str(rng.randint(0, 999))


def text_for(rng, hostile, allow_empty=False):
    if hostile:
        return gen.hostile_text(rng, allow_ws_edges=False, allow_empty=allow_empty)
    return gen.plain_text(rng)


def gen_graph(rng, n_ns=None, n_nodes=None, hostile=True, closed=True, values_ok=True, features=None, layered=None):
    """features: dict of switches that keep the graph inside / outside recorded-defect classes"""
    f = {"browse_colon": False, "attr_overflow": False, "empty_ns": False, "no_ua_use": False, "hostile_uri": False,
         "repeat_nodes": False, "many_ns": False, "vt_values": False}
    f.update(features or {})
    # layered: 3-5 namespaces of which only some pairs are linked, so that a namespace uses a later one but not an earlier one
    if layered is None:
        layered = n_ns is None and rng.random() < 0.35
    k = n_ns or (rng.randint(3, 5) if layered else rng.randint(1, 3))
    if f["many_ns"] and n_ns is None:
        k = rng.randint(10, 13)          # local indices with two digits
    uris = ["http://%s.example/%s" % (rng.choice("abcdefg"), gen.plain_text(rng, 1).lower()) + str(i) for i in range(k)]
    if (hostile and rng.random() < 0.3) or f.get("hostile_uri"):
        uris[rng.randrange(k)] += "?a=1&b=<2>"
    if k >= 2 and rng.random() < 0.15:
        # two namespaces whose URIs differ only by a trailing slash are two namespaces
        a_, b_ = rng.sample(range(k), 2)
        uris[b_] = uris[a_].rstrip("/") + "/" if not uris[a_].endswith("/") else uris[a_].rstrip("/")
    link = {frozenset((a, b)) for a in uris for b in uris if a < b and (not layered or rng.random() < 0.4)}

    def linked(a, b):
        return a == b or a == UA or b == UA or frozenset((a, b)) in link

    def vis(u, pool):
        return [x for x in pool if linked(x[0], u)]
    # namespaces that are reached through an attribute (DataType, ParentNodeId, MethodDeclarationId) only, never through a reference
    attr_link = {frozenset((a, b)) for a in uris for b in uris if a < b and layered and frozenset((a, b)) not in link and rng.random() < 0.3}

    def vis_attr(u, pool):
        return [x for x in pool if linked(x[0], u) or frozenset((x[0], u)) in attr_link]
    nodes = {}
    order = []
    for u in uris:
        cnt = (n_nodes or rng.randint(1, 10))
        for j_ in range(cnt):
            t, ident = rand_ident(rng, hostile)
            key = (u, t, ident)
            if j_ > 0 and rng.random() < 0.12:
                # a twin: the identifier text of an existing node under another identifier type is a different NodeId
                ku, kt, kid = rng.choice([x for x in order if x[0] == u] or [key])
                key = (u, "s" if kt != "s" else "b", kid)
            if key in nodes:
                continue
            cls = rng.choice(CLASSES) if rng.random() < 0.7 else rng.choice(["UAObject", "UAVariable"])
            name = text_for(rng, hostile)
            if not f["browse_colon"]:
                name = name.replace(":", ";")
            if name == "":
                name = "n"
            n = {"id": key, "cls": cls, "browse_ns": rng.choice([u, u, u, UA] + [x for x in uris if linked(x, u)]), "browse": name,
                 "display": text_for(rng, hostile, allow_empty=True), "description": text_for(rng, hostile, allow_empty=True) if rng.random() < 0.5 else "",
                 "attrs": {}, "value": None}
            nodes[key] = n
            order.append(key)
    keys = list(order)
    base_targets = [BASE(i) for i in (58, 61, 63, 68, 78, 84, 85)]
    dtypes = [k_ for k_ in keys if nodes[k_]["cls"] == "UADataType"]
    for key in keys:
        n = nodes[key]
        for a in ATTRS[n["cls"]]:
            if rng.random() < 0.45:
                if a == "DataType":
                    continue
                if a in ("ParentNodeId", "MethodDeclarationId"):
                    n["attrs"][a] = rng.choice(vis_attr(key[0], keys) + base_targets) if closed else rng.choice(keys + base_targets + [(n["id"][0], "i", "999999")])
                elif a in ("IsAbstract", "Symmetric"):
                    n["attrs"][a] = rng.choice(["true", "false", "true", "false", "1"])      # "1" is xs:boolean's other spelling of true
                elif a == "Historizing":
                    n["attrs"][a] = rng.choice(["true", "false"])
                elif a == "ValueRank":
                    n["attrs"][a] = str(rng.choice([-3, -2, -1, 0, 1, 2, 3]) if not f["attr_overflow"] else rng.choice([-1, 1, 127, 128, 200]))
                elif a in ("AccessLevel", "EventNotifier"):
                    n["attrs"][a] = str(rng.choice([0, 1, 3, 5, 15, 127]) if not f["attr_overflow"] else rng.choice([1, 127, 128, 255]))
                elif a == "UserAccessLevel":
                    n["attrs"][a] = str(rng.choice([0, 1, 3, 255]))
                elif a == "MinimumSamplingInterval":
                    n["attrs"][a] = str(rng.choice([-1, 0, 100, 1000, 2147483647]))
                elif a == "ArrayDimensions":
                    n["attrs"][a] = rng.choice(["0", "3", "2,3"])
                elif a == "WriteMask":
                    n["attrs"][a] = str(rng.choice([0, 1, 4194303]))
                elif a == "SymbolicName":
                    n["attrs"][a] = "S" + "".join(ch for ch in gen.plain_text(rng, 2) if ch.isalnum()) + "_" + str(rng.randint(0, 99))
        if n["cls"] in ("UAVariable", "UAVariableType"):
            if (n["cls"] == "UAVariable" or (n["cls"] == "UAVariableType" and f.get("vt_values"))) and values_ok and rng.random() < 0.7:
                v = values.rand_value(rng)
                if rng.random() < 0.07:      # markup-like text without '&' or '<' (']]>' must still be escaped in element content)
                    v = {"t": "String", "v": rng.choice(["a]]>b", "]]>", "limit[idx[0]]>5", "x]>y ]] >", "-->"])}
                n["value"] = v
                vt = v["t"] if v["t"] != "ListOf" else v["typename"]
                n["attrs"]["DataType"] = BASE(VALUE_DT.get(vt, 24))
                if v["t"] == "ListOf":
                    n["attrs"]["ValueRank"] = "1"
            elif rng.random() < 0.6:
                n["attrs"]["DataType"] = rng.choice(vis_attr(key[0], dtypes) + [BASE(6), BASE(12), BASE(11)])
    # references
    refs = []
    custom_types = [k_ for k_ in keys if nodes[k_]["cls"] == "UAReferenceType"]
    tpool = [BASE(v) for v in REFTYPES.values()] * 3 + custom_types
    for key in keys:
        n = nodes[key]
        # every node hangs somewhere so that graphs are realistic
        if n["cls"] in ("UAObject", "UAVariable", "UAMethod", "UAView"):
            parent = rng.choice([k_ for k_ in vis(key[0], keys) if k_ != key] + [BASE(85)])
            refs.append((parent, key, BASE(rng.choice([47, 35, 46]))))
            tdef = BASE(61) if n["cls"] == "UAObject" else BASE(63)
            if n["cls"] in ("UAObject", "UAVariable"):
                refs.append((key, tdef, BASE(40)))
            if rng.random() < 0.3:
                refs.append((key, BASE(78), BASE(37)))
        else:
            sup = {"UAObjectType": 58, "UAVariableType": 63, "UADataType": 24, "UAReferenceType": 33}[n["cls"]]
            refs.append((BASE(sup), key, BASE(45)))
    for _ in range(rng.randint(0, 2 * len(keys))):
        a = rng.choice(keys)
        b = rng.choice(vis(a[0], keys) + base_targets)
        if not closed and rng.random() < 0.15:
            b = (rng.choice(uris + ["http://nowhere.example/x"]), "i", str(rng.randint(7000, 7999)))
        if a == b and rng.random() < 0.5:
            continue
        refs.append((a, b, rng.choice([t_ for t_ in tpool if linked(t_[0], a[0]) and linked(t_[0], b[0])])))
    refs = list(dict.fromkeys(refs))
    if f["no_ua_use"]:
        pass
    models = {}
    for u in uris:
        deps = [UA] + [x for x in uris if x != u and (any((r[0][0] == u and r[1][0] == x) or (r[1][0] == u and r[0][0] == x) or
                                                           (r[0][0] == u or r[1][0] == u) and r[2][0] == x for r in refs)
                                                       or any(n_["id"][0] == u and (n_["browse_ns"] == x or any(isinstance(v_, tuple) and v_[0] == x for v_ in n_["attrs"].values()))
                                                              for n_ in nodes.values()))]
        models[u] = {"uri": u, "version": rng.choice(["1.0.0", "2.1", None]), "publication_date": rng.choice(["2020-01-01T00:00:00Z", None]),
                     "required": [{"uri": d, "version": rng.choice(["1.04", "1.0.0", None]), "publication_date": rng.choice(["2019-05-01T00:00:00Z", None])} for d in deps]}
    repeat = {}
    if f["repeat_nodes"] and order:
        for k_ in rng.sample(order, min(len(order), rng.randint(1, 2))):
            repeat[k_] = 1               # the node element is written twice (overlapping exports)
    return {"uris": uris, "nodes": nodes, "order": order, "refs": refs, "models": models, "repeat": repeat}


# ------------------------------------------------------------------------------------------------
# serialisation
# ------------------------------------------------------------------------------------------------
def value_xml(v, p, rng=None, top=True):
    """standard NodeSet2 form of a value description; p = prefix ('' or 't:')"""
    xmlns = (' xmlns="%s"' % NS_TYPES) if (top and p == "") else ""
    t = v["t"]
    o = lambda tag, extra="": "<%s%s%s%s>" % (p, tag, xmlns, extra)   # noqa: E731
    c = lambda tag: "</%s%s>" % (p, tag)   # noqa: E731
    if t == "Boolean":
        return o(t) + ("" if v["v"] is None else ("true" if v["v"] else "false")) + c(t)
    if t in values.INT_RANGES:
        return o(t) + ("" if v["v"] is None else str(v["v"])) + c(t)
    if t in ("Float", "Double"):
        x = None if v["v"] is None else float(v["v"])
        txt = "" if x is None else ("NaN" if x != x else "INF" if x == float("inf") else "-INF" if x == float("-inf") else repr(x))
        return o(t) + txt + c(t)
    if t in ("String", "Guid"):
        return o(t) + ("" if v["v"] is None else escape(v["v"])) + c(t)
    if t == "DateTime":
        return o(t) + v["v"] + "Z" + c(t)
    if t == "ByteString":
        return o(t) + (v["v"] or "") + c(t)
    if t == "NodeId":
        ns, it, ident = v["v"]
        text = ("ns=%d;" % ns if ns else "") + "%s=%s" % (it, ident)
        return o(t) + "\n  <%sIdentifier>%s</%sIdentifier>\n" % (p, escape(text), p) + c(t)
    if t == "LocalizedText":
        return (o(t) + ("<%sLocale>%s</%sLocale>" % (p, v["locale"], p) if v["locale"] is not None else "")
                + ("<%sText>%s</%sText>" % (p, escape(v["text"]), p) if v["text"] is not None else "") + c(t))
    if t == "ListOf":
        return o("ListOf" + v["typename"]) + "".join(value_xml(x, p, rng, top=False) for x in v["items"]) + c("ListOf" + v["typename"])
    if t == "EURange":
        return (o("ExtensionObject") + "<%sTypeId><%sIdentifier>i=885</%sIdentifier></%sTypeId><%sBody><%sRange><%sLow>%s</%sLow><%sHigh>%s</%sHigh></%sRange></%sBody>"
                % (p, p, p, p, p, p, p, repr(float(v["low"])), p, p, repr(float(v["high"])), p, p, p) + c("ExtensionObject"))
    if t == "EngineeringUnits":
        lt = lambda x: (("<%sLocale>%s</%sLocale>" % (p, x["locale"], p)) if x["locale"] is not None else "") + \
            (("<%sText>%s</%sText>" % (p, escape(x["text"]), p)) if x["text"] is not None else "")   # noqa: E731
        return (o("ExtensionObject") + "<%sTypeId><%sIdentifier>i=888</%sIdentifier></%sTypeId><%sBody><%sEUInformation><%sNamespaceUri>%s</%sNamespaceUri><%sUnitId>%d</%sUnitId><%sDisplayName>%s</%sDisplayName><%sDescription>%s</%sDescription></%sEUInformation></%sBody>"
                % (p, p, p, p, p, p, p, escape(v["uri"]), p, p, v["unit_id"], p, p, lt(v["display"]), p, p, lt(v["description"]), p, p, p)
                + c("ExtensionObject"))
    if t == "XmlElement":
        return v["v"]
    raise ValueError(t)


def nid_text(key, local):
    u, t, ident = key
    k = local[u]
    return ("ns=%d;" % k if k else "") + "%s=%s" % (t, ident)


def serialise(rng, g, one_file=False, base_name=True, uri_rng=None, extras=True):
    """returns {filename: xml text}; one file per non-base namespace (nodes of namespace U go to U's file)"""
    files = {}
    groups = [g["uris"]] if one_file else [[u] for u in g["uris"]]
    for gi, grp in enumerate(groups):
        own = [k for k in g["order"] if k[0] in grp]
        refs = [r for r in g["refs"]]
        used = []

        def use(key):
            if key[0] != UA and key[0] not in used:
                used.append(key[0])
        # decide placement of each reference that touches this file's nodes
        placed = {k: [] for k in own}
        for (s, t, ty) in refs:
            s_in, t_in = s in placed, t in placed
            if not (s_in or t_in):
                continue
            where = []
            if s_in and t_in:
                where = rng.choice([["s"], ["t"], ["s", "t"]])
            elif s_in:
                where = ["s"]
            else:
                where = ["t"]
            # a reference between two files is declared in one or both; the other file decides for itself
            for w in where:
                if w == "s":
                    placed[s].append((t, ty, True))
                else:
                    placed[t].append((s, ty, False))
                use(s), use(t), use(ty)
            if rng.random() < 0.08 and s_in:
                placed[s].append((t, ty, True))          # declared twice on one node
        for k in own:
            use(k)
            n = g["nodes"][k]
            use((n["browse_ns"], "", ""))
            for a, v in n["attrs"].items():
                if isinstance(v, tuple):
                    use(v)
        for u in grp:
            if u not in used:
                used.append(u)
        extra = ["http://unused.example/%d" % rng.randint(0, 9)] if (rng.random() < 0.15 and extras) else []
        uris = list(used) + extra
        ur = uri_rng or rng
        if ur.random() < 0.12 and extras:
            uris.append(UA)        # a document may list the OPC UA namespace itself: one more local index for it
        ur.shuffle(uris)
        if ur.random() < 0.6:          # own namespace first, as writers usually do
            uris.sort(key=lambda x: 0 if x == grp[0] else 1)
        local = {UA: 0}
        for i, u in enumerate(uris):
            local[u] = i + 1
        # aliases
        alias = {}
        cands = list({BASE(v) for v in REFTYPES.values()} | {BASE(i) for i in (6, 11, 12)}
                     | {ty for lst in placed.values() for (_o, ty, _f) in lst})
        # … and the nodes named by DataType / ParentNodeId / MethodDeclarationId attributes: an alias stands for any NodeId
        cands += sorted({v for k_ in own for v in g["nodes"][k_]["attrs"].values() if isinstance(v, tuple)} - set(cands))
        names = {}
        for c_ in cands:
            if rng.random() < 0.6:
                nm = None
                for k_, v_ in REFTYPES.items():
                    if BASE(v_) == c_:
                        nm = k_
                nm = nm or ("Alias%d" % len(names))
                if nm not in names:
                    names[nm] = c_
                    alias[c_] = nm
        p = rng.choice(["", "uax:"])
        tp = "" if p == "" else "t:"
        ws = lambda: rng.choice(["", "\n", "\n  ", " "])   # noqa: E731
        out = io.StringIO()
        out.write('<?xml version="1.0" encoding="utf-8"?>\n')
        if p:
            out.write('<uax:UANodeSet xmlns:uax="%s" xmlns:t="%s">' % (NS_XSD, NS_TYPES))
        else:
            out.write('<UANodeSet xmlns="%s" xmlns:xsd="http://www.w3.org/2001/XMLSchema">' % NS_XSD)
        out.write(ws())
        cm = lambda: ("<!-- %s -->" % rng.choice(["generated", "x < y & z", "NamespaceUris", "a -"])) if rng.random() < 0.12 else ""   # noqa: E731
        out.write(cm())
        if uris:
            out.write("<%sNamespaceUris>%s" % (p, ws()))
            for u in uris:
                out.write("<%sUri>%s</%sUri>%s" % (p, escape(u), p, ws()))
            out.write("</%sNamespaceUris>%s" % (p, ws()))
            if rng.random() < 0.08:
                out.write("<%sServerUris><%sUri>urn:server:%d</%sUri></%sServerUris>" % (p, p, rng.randint(0, 9), p, p))
        out.write(cm())
        out.write("<%sModels>" % p)
        for u in grp:
            m = g["models"][u]
            at = ' ModelUri=%s' % quoteattr(m["uri"])
            if m["version"] is not None:
                at += ' Version="%s"' % m["version"]
            if m["publication_date"] is not None:
                at += ' PublicationDate="%s"' % m["publication_date"]
            out.write("<%sModel%s>" % (p, at))
            for r in m["required"]:
                at = ' ModelUri=%s' % quoteattr(r["uri"])
                if r["version"] is not None:
                    at += ' Version="%s"' % r["version"]
                if r["publication_date"] is not None:
                    at += ' PublicationDate="%s"' % r["publication_date"]
                out.write("<%sRequiredModel%s/>" % (p, at))
            out.write("</%sModel>" % p)
        out.write("</%sModels>%s" % (p, ws()))
        out.write("<%sAliases>" % p)
        for nm, c_ in names.items():
            out.write("<%sAlias Alias=\"%s\">%s</%sAlias>%s" % (p, nm, escape(nid_text(c_, local)), p, ws()))
        out.write("</%sAliases>%s" % (p, ws()))
        out.write(cm())

        def idref(key, allow_alias=True):
            if allow_alias and key in alias and rng.random() < 0.7:
                return alias[key]
            return nid_text(key, local)
        for k in own + [k_ for k_ in own for _ in range(g.get("repeat", {}).get(k_, 0))]:
            n = g["nodes"][k]
            attrs = [("NodeId", nid_text(k, local))]
            bk = local[n["browse_ns"]]
            # a name that itself contains ':' is written with its prefix also in namespace 0 (unprefixed it would read as a prefixed name)
            bn = ("%d:%s" % (bk, n["browse"])) if (bk != 0 or rng.random() < 0.3 or ":" in n["browse"]) else n["browse"]
            attrs.append(("BrowseName", bn))
            for a, v in n["attrs"].items():
                attrs.append((a, idref(v) if isinstance(v, tuple) else v))
            if rng.random() < 0.3:
                head, tail = attrs[:1], attrs[1:]
                rng.shuffle(tail)
                attrs = head + tail
            out.write("<%s%s" % (p, n["cls"]))
            for a, v in attrs:
                out.write("%s%s=%s" % (rng.choice([" ", "  ", "\n   "]), a, quoteattr(v)))
            out.write(">%s" % ws())
            out.write("<%sDisplayName>%s%s</%sDisplayName>%s" % (p, escape(n["display"]), rng.choice(["", "", " ", "\n"]) if n["display"] else "", p, ws()))
            if rng.random() < 0.1:
                out.write("<%sDisplayName Locale=\"de\">zweiter</%sDisplayName>" % (p, p))
            if n["description"]:
                out.write("<%sDescription>%s%s</%sDescription>%s" % (p, escape(n["description"]), rng.choice(["", "  "]), p, ws()))
            if placed[k] or rng.random() < 0.7:
                out.write("<%sReferences>%s" % (p, ws()))
                for (other, ty, fwd) in placed[k]:
                    at = ' ReferenceType=%s' % quoteattr(idref(ty))
                    if not fwd:
                        at += ' IsForward="false"'
                    elif rng.random() < 0.2:
                        at += ' IsForward="true"'
                    txt_ = escape(idref(other, allow_alias=False))
                    if txt_.startswith("ns=") and rng.random() < 0.15:
                        txt_ = "\n      " + txt_          # a namespace-qualified target on a line of its own
                    out.write("<%sReference%s>%s%s</%sReference>%s" % (p, at, txt_, rng.choice(["", "", " "]), p, ws()))
                out.write("</%sReferences>%s" % (p, ws()))
            if n["value"] is not None:
                out.write("<%sValue>%s%s%s</%sValue>" % (p, ws(), value_xml(n["value"], tp, rng), ws(), p))
            out.write("</%s%s>%s" % (p, n["cls"], ws()))
        out.write("</%sUANodeSet>\n" % p)
        fname = "%s%d.xml" % (rng.choice(["ns", "z", "A", "m"]), gi)
        while fname in files:
            fname = "x" + fname
        files[fname] = out.getvalue()
    return files


# ------------------------------------------------------------------------------------------------
# infoset of a document text (for the model): what lxml hands to the code
# ------------------------------------------------------------------------------------------------
def _local(tag):
    return tag.split("}", 1)[1] if "}" in tag else tag


def elem_json(e):
    import lxml.etree as ET
    if not isinstance(e.tag, str):
        return None
    ns = e.tag[1:].split("}", 1)[0] if e.tag.startswith("{") else ""
    return {"ns": ns, "tag": _local(e.tag), "attrs": [[k, v] for k, v in e.attrib.items()], "text": e.text,
            "kids": [x for x in (elem_json(c) for c in e) if x is not None], "tail": e.tail}


def infoset(text):
    import lxml.etree as ET
    root = ET.fromstring(text.encode("utf-8"))
    X = "{%s}" % NS_XSD
    d = {"uris": [], "models": [], "aliases": [], "nodes": []}
    nsu = root.find(X + "NamespaceUris")
    if nsu is not None:
        d["uris"] = [u.text for u in nsu if u.tag == X + "Uri"]
    for ms in root.iter(X + "Models"):
        for m in ms:
            if not isinstance(m.tag, str):
                continue
            d["models"].append({"uri": m.get("ModelUri"), "publication_date": m.get("PublicationDate"), "version": m.get("Version"),
                                "required": [{"uri": r.get("ModelUri"), "publication_date": r.get("PublicationDate"), "version": r.get("Version")}
                                             for r in m.iterchildren() if isinstance(r.tag, str)]})
    for a in root.iter(X + "Alias"):
        d["aliases"].append([a.attrib["Alias"], a.text])
    for e in root:
        if isinstance(e.tag, str) and _local(e.tag) in CLASSES and e.tag.startswith(X):
            val = e.find(X + "Value")
            d["nodes"].append({
                "cls": _local(e.tag), "attrs": [[k, v] for k, v in e.attrib.items()],
                "display": [c.text for c in e.findall(X + "DisplayName")],
                "description": [c.text for c in e.findall(X + "Description")],
                "refs": [{"attrs": [[k, v] for k, v in r.attrib.items()], "text": r.text}
                         for rs in e.findall(X + "References") for r in rs.findall(X + "Reference")],
            })
            if val is not None and len(val) >= 1:
                import xmltree
                d["nodes"][-1]["value"] = xmltree.resolved(val[0])
    return d


# ------------------------------------------------------------------------------------------------
# expected meaning
# ------------------------------------------------------------------------------------------------
def expected_rows(g):
    """key -> the row the property promises (identifiers as (uri, type, ident))"""
    rows = {}
    for k in g["order"]:
        n = g["nodes"][k]
        attrs = {}
        for a, v in n["attrs"].items():
            if isinstance(v, tuple):
                attrs[a] = list(v)
            elif a in ("IsAbstract", "Symmetric"):
                attrs[a] = (v in ("true", "1"))
            elif a in ("ValueRank", "AccessLevel", "EventNotifier", "MinimumSamplingInterval"):
                attrs[a] = int(v)
            else:
                attrs[a] = v
        rows[k] = {"cls": n["cls"], "id": list(k), "browse": n["browse"], "browse_ns": n["browse_ns"],
                   "display": n["display"].rstrip(), "description": n["description"].rstrip(), "attrs": attrs, "value": n["value"]}
    return rows

"""./check <id> [--tier quick|thorough] [--replay file]"""
import argparse
import importlib
import os
import sys
import time
import traceback
import warnings

warnings.filterwarnings("ignore")
sys.path.insert(0, os.path.dirname(os.path.abspath(__file__)))
import core  # noqa: E402


def watchdog(limit):
    """a check that does not finish is a tool failure (exit 2), never a verdict"""
    import faulthandler
    import threading

    def fire():
        print("INFRASTRUCTURE ERROR (exit 2): time limit of %d s exceeded; stack follows" % limit, file=sys.stderr)
        faulthandler.dump_traceback(file=sys.stderr)
        sys.stderr.flush()
        os._exit(2)
    t = threading.Timer(limit, fire)
    t.daemon = True
    t.start()


def main():
    ap = argparse.ArgumentParser()
    ap.add_argument("pid")
    ap.add_argument("--tier", default=os.environ.get("VERIF_TIER", "quick"), choices=["quick", "thorough"])
    ap.add_argument("--replay", default=None)
    a = ap.parse_args()
    seed = int(os.environ.get("VERIF_SEED", "0") or 0)
    pid = a.pid.upper()
    watchdog(int(os.environ.get("VERIF_TIME_LIMIT", "1500" if a.tier == "quick" else "14400")))
    try:
        mod = importlib.import_module("props." + pid.lower())
        t0 = time.time()
        build_s = core.lean_build()
        hits = core.forbidden_tokens()
        if hits:
            raise core.Infra("forbidden tokens in Lean sources: %r" % hits[:10])
        audit, cached = core.lean_audit(mod.MODULE)
        for extra_mod, prefix in getattr(mod, "EXTRA_AUDIT", []):
            a2, c2 = core.lean_audit(extra_mod, prefix)
            audit.update(a2)
            cached = cached and c2
        if not audit:
            raise core.Infra("no theorems found in " + mod.MODULE)
        core.assert_repo_under_test()
        run = core.Run(pid, a.tier, seed, mod.MODULE, mod.TRUSTED_BASE, mod.ASSUMPTIONS, mod.RULE)
        if a.tier == "thorough" and not a.replay:
            run.extra["leanchecker"] = core.leanchecker([mod.MODULE] + [m for m, _ in getattr(mod, "EXTRA_AUDIT", [])])
        if a.replay:
            rc = mod.replay(run, a.replay)
            sys.exit(rc)
        mod.explore(run)
        rc = run.finish(audit, cached, build_s, search_missing=getattr(mod, "search_missing", None) and (lambda d: mod.search_missing(run, d)))
        print("%s %s seed=%d: %d evaluations, %d theorems, %.1fs, exit %d" % (
            pid, a.tier, seed, run.evaluations, len(audit), time.time() - t0, rc), file=sys.stderr)
        sys.exit(rc)
    except core.Infra as e:
        print("INFRASTRUCTURE ERROR (exit 2): %s" % e, file=sys.stderr)
        sys.exit(2)
    except SystemExit:
        raise
    except Exception:
        traceback.print_exc()
        print("INFRASTRUCTURE ERROR (exit 2): unexpected exception in the harness", file=sys.stderr)
        sys.exit(2)


main()

"""Shared machinery of the checks: Lean build + audit, model driver, run bookkeeping,
known findings, verdicts, replays, evidence.  Stdlib only (runs under /venv/bin/python)."""
import hashlib
import json
import os
import random
import re
import shutil
import subprocess
import sys
import tempfile
import time

VERIF = os.path.dirname(os.path.dirname(os.path.abspath(__file__)))
LEAN = os.path.join(VERIF, "lean")
REPO = os.environ.get("VERIF_REPO", "/repo")
DRIVER = os.path.join(LEAN, ".lake", "build", "bin", "driver")
ALLOWED_AXIOMS = {"propext", "Classical.choice", "Quot.sound"}
FORBIDDEN = re.compile(
    r"\bsorry\b|\badmit\b|^\s*axiom\s|native_decide|bv_decide|implemented_by|\bunsafe\s|maxHeartbeats\s+0\b",
    re.M,
)


class Infra(Exception):
    """tool failure / timeout: exit code 2, never a VIOLATION"""


def _env():
    e = dict(os.environ)
    e.pop("PYTHONPATH", None)
    return e


def sh(cmd, cwd=None, timeout=1800, input=None):
    p = subprocess.run(cmd, cwd=cwd, timeout=timeout, input=input, capture_output=True, text=True, env=_env())
    return p.returncode, p.stdout, p.stderr


# ----------------------------------------------------------------------------------------------
# Lean: build, forbidden tokens, axiom audit
# ----------------------------------------------------------------------------------------------
def strip_lean_comments(src):
    out = []
    i, n, depth = 0, len(src), 0
    while i < n:
        if src.startswith("/-", i):
            depth += 1
            i += 2
        elif depth and src.startswith("-/", i):
            depth -= 1
            i += 2
        elif depth:
            if src[i] == "\n":
                out.append("\n")
            i += 1
        elif src.startswith("--", i):
            while i < n and src[i] != "\n":
                i += 1
        elif src[i] == '"':
            j = i + 1
            while j < n and src[j] != '"':
                j += 2 if src[j] == "\\" else 1
            out.append('""')
            i = j + 1
        else:
            out.append(src[i])
            i += 1
    return "".join(out)


def lean_sources():
    res = []
    for root, _dirs, files in os.walk(LEAN):
        if ".lake" in root.split(os.sep):
            continue
        for f in files:
            if f.endswith(".lean"):
                res.append(os.path.join(root, f))
    return sorted(res)


def lean_hash():
    h = hashlib.sha256()
    for p in lean_sources() + [os.path.join(LEAN, "lakefile.toml")]:
        h.update(p.encode())
        h.update(open(p, "rb").read())
    return h.hexdigest()


def lean_build():
    t0 = time.time()
    rc, out, err = sh(["lake", "build"], cwd=LEAN, timeout=3000)
    if rc != 0:
        raise Infra("lake build failed:\n" + out[-4000:] + err[-2000:])
    if not os.path.exists(DRIVER):
        raise Infra("driver binary missing after lake build")
    return time.time() - t0


def forbidden_tokens():
    hits = []
    for p in lean_sources():
        body = strip_lean_comments(open(p, encoding="utf-8").read())
        for m in FORBIDDEN.finditer(body):
            hits.append((os.path.relpath(p, LEAN), m.group(0).strip()))
    return hits


AUDIT_TMPL = """import {module}
import Lean
open Lean Elab Command

#eval show CommandElabM Unit from do
  let env ← getEnv
  let some modIdx := env.getModuleIdx? `{module} | throwError "module not found"
  for (n, ci) in env.constants.map₁.toList do
    if env.getModuleIdxFor? n == some modIdx then
      match ci with
      | .thmInfo _ =>
        if !n.isInternalDetail then
          let axs ← liftCoreM (collectAxioms n)
          IO.println s!"THM {{n}} AXIOMS {{axs.toList}}"
      | _ => pure ()
"""


def lean_audit(module, nsprefix=None):
    """Returns {theorem: [axioms]} for every theorem declared in `module` (a Props file)
    inside the property's own namespace `Opcua.<Cxx>` (or the given prefix)."""
    nsprefix = nsprefix or ("Opcua." + module.rsplit(".", 1)[1] + ".")
    cache_dir = os.path.join(LEAN, ".lake", "audit")
    os.makedirs(cache_dir, exist_ok=True)
    key = lean_hash()
    cpath = os.path.join(cache_dir, module + ".json")
    if os.path.exists(cpath):
        try:
            c = json.load(open(cpath))
            if c.get("key") == key:
                return {k: v for k, v in c["theorems"].items() if k.startswith(nsprefix)}, True
        except Exception:
            pass
    d = tempfile.mkdtemp(prefix="opcua_audit_")
    try:
        f = os.path.join(d, "Audit.lean")
        open(f, "w").write(AUDIT_TMPL.format(module=module))
        rc, out, err = sh(["lake", "env", "lean", f], cwd=LEAN, timeout=1200)
        if rc != 0:
            raise Infra("audit failed for %s:\n%s\n%s" % (module, out[-3000:], err[-2000:]))
    finally:
        shutil.rmtree(d, ignore_errors=True)
    thms = {}
    for line in out.splitlines():
        m = re.match(r"THM (\S+) AXIOMS \[(.*)\]", line)
        if m and not re.search(r"\.(eq_def|eq_\d+|congr_simp|induct|induct_unfolding|fun_cases|sizeOf_spec|injEq|inj)$", m.group(1)):
            axs = [a.strip() for a in m.group(2).split(",") if a.strip()]
            thms[m.group(1)] = axs
    json.dump({"key": key, "theorems": thms}, open(cpath, "w"))
    return {k: v for k, v in thms.items() if k.startswith(nsprefix)}, False


def leanchecker(modules):
    """thorough tier: re-check the compiled modules with the toolchain's independent checker (cached per Lean source hash)"""
    cache_dir = os.path.join(LEAN, ".lake", "audit")
    os.makedirs(cache_dir, exist_ok=True)
    key = lean_hash()
    out = {}
    for m in modules:
        cpath = os.path.join(cache_dir, m + ".leanchecker.json")
        try:
            c = json.load(open(cpath))
            if c.get("key") == key:
                out[m] = c["result"]
                continue
        except Exception:  # noqa: BLE001
            pass
        rc, so, se = sh(["lake", "env", "leanchecker", m], cwd=LEAN, timeout=3000)
        if rc != 0:
            raise Infra("leanchecker rejects %s:\n%s\n%s" % (m, so[-2000:], se[-2000:]))
        out[m] = "accepted"
        json.dump({"key": key, "result": "accepted"}, open(cpath, "w"))
    return out


# ----------------------------------------------------------------------------------------------
# tie (A): the NodeId kernel regenerated from the Python source
# ----------------------------------------------------------------------------------------------
def _gen_defs(text):
    """{name: text of the definition} of a generated file"""
    defs, name, buf = {}, None, []
    for l in text.splitlines():
        if l.startswith(("/--", "end Opcua.Gen", "-- UNSUPPORTED")):
            if name:
                defs[name] = "\n".join(buf).rstrip()
            name, buf = None, []
        elif l.startswith("def "):
            name, buf = l.split()[1], [l]
        elif name:
            buf.append(l)
    if name:
        defs[name] = "\n".join(buf).rstrip()
    return defs


def _still_tied(committed, tr):
    """after a failed tie: which generated definitions are, text for text, the committed ones (and mention only such definitions)?
    The built tie theorems about those are still theorems about the current source."""
    import re
    rc, out, err = sh([sys.executable, "-B", tr, "--partial", REPO], timeout=120)
    if rc != 0:
        return None
    old, new = _gen_defs(committed), _gen_defs(out)
    left = [l.split()[2].rstrip(":") for l in out.splitlines() if l.startswith("-- UNSUPPORTED")]
    tied = {n for n in old if new.get(n) == old[n]}
    changed = True
    while changed:
        changed = False
        for n in sorted(tied):
            used = {m for m in old if m != n and re.search(r"(?<![A-Za-z0-9_.])%s(?![A-Za-z0-9_])" % re.escape(m), old[n])}
            if not used <= tied:
                tied.discard(n)
                changed = True
    return {"unchanged_definitions_still_tied": sorted(tied), "left_the_subset": left,
            "changed_or_depending_on_a_changed_one": sorted(n for n in old if n not in tied and n not in left)}


def translator_tie():
    """Translate value_parser.cached_parse_nodeid / parse_nodeid, UANodeId.__str__, nodeset_parser.extend_namespace_map,
    UAGraph._get_namespace_list and UANodeId.nodeid_type_value_to_int / xml_encode / json_encode from /repo's current source.
    identical to the committed Gen/NodeIdGen.lean -> the built tie theorems (Gen/NodeIdTie.lean: generated = hand model,
    and the C09 theorems restated for the generated definitions) are about the code as it is now;
    different -> the tie theorems are re-checked against the regenerated definitions in a scratch file;
    if that fails (or the source left the translator's subset) the kernel is tied by correspondence only.
    Never a verdict by itself."""
    tr = os.path.join(VERIF, "translator", "py2lean.py")
    rc, out, err = sh([sys.executable, "-B", tr, REPO], timeout=120)
    committed = open(os.path.join(LEAN, "OpcuaModel", "Gen", "NodeIdGen.lean"), encoding="utf-8").read()
    if rc != 0:
        return {"tie": "correspondence-only", "reason": "translator: " + (err.strip().splitlines() or ["failed"])[-1][:300], "per_definition": _still_tied(committed, tr)}
    if out == committed:
        return {"tie": "regenerated-identical", "generated_definitions": ["cached_parse_nodeid", "parse_nodeid", "nodeid_str", "extend_namespace_map", "get_namespace_list", "nodeid_type_value_to_int", "nodeid_xml_encode", "nodeid_json_encode", "qname_xml_encode", "qname_json_encode",
                                                                          "int_xml_encode_{sbyte,byte,int16,uint16,int32,uint32,int64,uint64}", "bool_xml_encode",
                                                                          "int_json_encode_{sbyte,byte,int16,uint16,int32,uint32}", "str_xml_encode", "str_json_encode", "loctext_xml_encode", "loctext_json_encode", "euinfo_xml_encode"]}
    tie = open(os.path.join(LEAN, "OpcuaModel", "Gen", "NodeIdTie.lean"), encoding="utf-8").read()
    body = "\n".join(l for l in out.splitlines() if not l.startswith("import "))
    tie_body = "\n".join(l for l in tie.splitlines() if not l.startswith("import "))
    d = tempfile.mkdtemp(prefix="opcua_tie_")
    try:
        f = os.path.join(d, "Tie.lean")
        open(f, "w", encoding="utf-8").write("import OpcuaModel.Gen.PyPrims\nimport OpcuaModel.Props.C09\nimport OpcuaModel.Props.C03\nimport OpcuaModel.Props.C08\nimport OpcuaModel.Props.C10\n" + body + "\n" + tie_body + "\n")
        rc2, out2, err2 = sh(["lake", "env", "lean", f], cwd=LEAN, timeout=900)
    finally:
        shutil.rmtree(d, ignore_errors=True)
    if rc2 == 0 and "sorry" not in out2:
        return {"tie": "regenerated-reproved", "note": "the source differs from the pinned one; the tie theorems check against the regenerated definitions"}
    first = [l for l in (out2 + err2).splitlines() if "error" in l][:3]
    return {"tie": "correspondence-only", "reason": "tie theorems do not check against the regenerated definitions: " + " | ".join(first)[:500],
            "per_definition": _still_tied(committed, tr)}


# ----------------------------------------------------------------------------------------------
# model driver (line protocol)
# ----------------------------------------------------------------------------------------------
class Driver:
    def __init__(self):
        if not os.path.exists(DRIVER):
            raise Infra("model driver not built: " + DRIVER)
        self.p = None
        self.lines = 0

    def batch(self, ops, timeout=900):
        """ops: list of dicts → list of dicts (fresh process, all at once)."""
        if not ops:
            return []
        data = "".join(json.dumps(o, ensure_ascii=False) + "\n" for o in ops)
        p = subprocess.run([DRIVER], input=data.encode("utf-8"), capture_output=True, timeout=timeout, env=_env())
        if p.returncode != 0:
            raise Infra("driver exited %d: %s" % (p.returncode, p.stderr.decode("utf-8", "replace")[-2000:]))
        outs = p.stdout.decode("utf-8").split("\n")
        if outs and outs[-1] == "":
            outs.pop()
        if len(outs) != len(ops):
            raise Infra("driver returned %d lines for %d ops" % (len(outs), len(ops)))
        self.lines += len(ops)
        res = [json.loads(x) for x in outs]
        for o, r in zip(ops, res):
            if "driver_error" in r:
                raise Infra("driver could not decode op %s: %s" % (json.dumps(o, ensure_ascii=False)[:400], r["driver_error"]))
        return res

    def ask(self, op):
        return self.batch([op])[0]


# ----------------------------------------------------------------------------------------------
# known findings
# ----------------------------------------------------------------------------------------------
def load_findings():
    p = os.path.join(VERIF, "known_findings.json")
    data = json.load(open(p))
    return {f["id"]: f for f in data["findings"]}


# ----------------------------------------------------------------------------------------------
# a run of one check
# ----------------------------------------------------------------------------------------------
def canon(x):
    return json.dumps(x, sort_keys=True, ensure_ascii=False, default=str)


class Run:
    def __init__(self, pid, tier, seed, module, trusted_base, assumptions, rule):
        self.pid, self.tier, self.seed = pid, tier, seed
        self.rng = random.Random(seed * 1000003 + sum(map(ord, pid)))
        self.module = module
        self.trusted_base = trusted_base
        self.assumptions = assumptions
        self.rule = rule
        self.t0 = time.time()
        self.findings = load_findings()
        self.evaluations = 0
        self.nontrivial = set()
        self.samples = []
        self.hist = {}
        self.violations = []      # (kind, case, detail)
        self.disagreements = []   # correspondence breaks (case, model, impl)
        self.known_printed = {}
        self.compared = 0
        self.extra = {}
        self.driver = Driver()
        self.exhaustive = False
        self.max_violations = 3

    # --- bookkeeping
    def count(self, key, n=1):
        self.hist[key] = self.hist.get(key, 0) + n

    def case(self, case, nontrivial=True, tag=None):
        """register one explored case; `case` must be JSON-serialisable"""
        self.evaluations += 1
        if nontrivial:
            self.nontrivial.add(hashlib.md5(canon(case).encode()).hexdigest())
        if tag:
            self.count(tag)
        if len(self.samples) < 6 and (self.evaluations in (1, 2, 3) or self.rng.random() < 0.002):
            self.samples.append(case)

    def elapsed(self):
        return time.time() - self.t0

    # --- outcomes
    def known(self, fid, what=None):
        f = self.findings.get(fid)
        if f is None or f.get("status") != "known" or f.get("property") != self.pid:
            return False
        if fid not in self.known_printed:
            self.known_printed[fid] = 0
        self.known_printed[fid] += 1
        return True

    def violation(self, case, detail, kind="property"):
        self.violations.append((kind, case, detail))
        return len(self.violations) >= self.max_violations

    def disagree(self, case, model, impl):
        self.disagreements.append({"case": case, "model": model, "impl": impl})

    def full(self):
        return len(self.violations) >= self.max_violations

    # --- finish
    def write_replay(self, kind, case, detail, suffix=""):
        d = os.path.join(VERIF, "replays", self.pid)
        os.makedirs(d, exist_ok=True)
        body = {"property": self.pid, "kind": kind, "seed": self.seed, "tier": self.tier,
                "case": case, "detail": detail}
        h = hashlib.md5(canon(body).encode()).hexdigest()[:12]
        path = os.path.join(d, "%s%s.json" % (h, suffix))
        json.dump(body, open(path, "w"), indent=1, ensure_ascii=False, default=str)
        return os.path.relpath(path, VERIF)

    def finish(self, audit, audit_cached, build_s, search_missing=None):
        """search_missing: callable run when the correspondence broke but no failing input is known;
        it may add to self.violations."""
        lines = []
        if self.disagreements and not self.violations and search_missing is not None:
            search_missing(self.disagreements)
        for fid, n in sorted(self.known_printed.items()):
            f = self.findings[fid]
            lines.append("KNOWN-FINDING: property=%s %s: %s (reproduced on %d case(s))" % (self.pid, fid, f["what"], n))
        rc = 0
        for kind, case, detail in self.violations:
            path = self.write_replay(kind, case, detail)
            lines.append("VIOLATION property=%s replay=%s" % (self.pid, path))
            rc = 1
        if self.disagreements and not self.violations:
            path = self.write_replay(
                "correspondence", [d["case"] for d in self.disagreements[:20]],
                {"broken": "correspondence between the Lean model (%s) and the implementation" % self.module,
                 "theorems_no_longer_transferable": sorted(audit.keys()),
                 "disagreements": self.disagreements[:20]}, suffix="_nofail")
            lines.append("VIOLATION property=%s replay=%s no-failing-input-found" % (self.pid, path))
            rc = 1
        bad_axioms = {t: a for t, a in audit.items() if not set(a) <= ALLOWED_AXIOMS}
        cov = {
            "obligations": len(audit),
            "discharged": len(audit) - len(bad_axioms),
            "checker_cmd": "cd lean && lake build && lake env lean <generated Audit.lean for %s> (collectAxioms on every theorem of the module)" % self.module,
            "trusted_base": self.trusted_base,
            "theorems": sorted(audit.keys()),
            "axioms_used": sorted({a for v in audit.values() for a in v}),
            "audit_cached_for_same_lean_sources": audit_cached,
            "evaluations": self.evaluations,
            "distinct_nontrivial": len(self.nontrivial),
            "rule": self.rule,
            "samples": self.samples[:6] or [],
            "traces_validated_against_impl": self.compared,
            "disagreements_checked": len(self.disagreements),
            "distribution": dict(sorted(self.hist.items())),
            "known_findings_reproduced": sorted(self.known_printed.keys()),
            "exhaustive": self.exhaustive,
            "model_driver_lines": self.driver.lines,
            "lean_build_s": round(build_s, 2),
        }
        cov.update(self.extra)
        ev = {
            "property_id": self.pid, "tier": self.tier, "seed": self.seed, "level": "proof",
            "coverage": cov, "assumptions": self.assumptions,
            "wall_s": round(self.elapsed(), 2), "violations": sum(1 for l in lines if l.startswith("VIOLATION")),
        }
        os.makedirs(os.path.join(VERIF, "evidence"), exist_ok=True)
        json.dump(ev, open(os.path.join(VERIF, "evidence", self.pid + ".json"), "w"), indent=1,
                  ensure_ascii=False, default=str)
        if bad_axioms:
            raise Infra("theorems with inadmissible axioms: %r" % bad_axioms)
        for l in lines:
            print(l)
        sys.stdout.flush()
        return rc


def assert_repo_under_test():
    import opcua_tools
    p = os.path.realpath(opcua_tools.__file__)
    if not p.startswith(os.path.realpath(REPO) + os.sep):
        raise Infra("opcua_tools imported from %s, not from %s" % (p, REPO))

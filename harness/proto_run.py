"""Interception of the file-system / XML / JSON operations of a parse call (C19, C20).

The real modules keep their code; what they *see* as `os`, `open`, `ET` and `json` is replaced, for the
duration of a run, by proxies that (1) record every call, (2) can make a chosen call raise instead of
being performed, (3) can hand control to a deterministic scheduler so that several threads perform their
operations in a prescribed order.  Nothing is changed in /repo (no hooks)."""
import builtins
import hashlib
import json as real_json
import os as real_os
import threading

import lxml.etree as real_ET

from core import Infra

SUFFIX = "_parsed.json"


class Injected(OSError):
    """the failure the harness makes an operation raise"""


# raw call label -> model operation
GROUP = {"isfile": "isfile", "xmlparse": "xmlparse", "encode": "encode", "create": "create", "write": "write",
         "wclean": "wclean", "read": "read", "readlines": "read", "remove": "remove", "decode": "decode",
         "iterate": "iterate", "event": "iterate"}
UNMODELLED = {"exists", "listdir"}          # checks of the *input* made before the protocol starts
NOT_FAULTABLE = {"wclean", "remove", "event"}
LOCAL_LOOPS = {"encode", "decode", "iterate", "event"}   # computation on data the thread owns; splitting it adds no shared-state access        # the deletion of the helper file itself (excluded by the property)


class Ctl:
    def __init__(self):
        self.local = threading.local()
        self.raw = {}            # tid -> [(label, basename)]
        self.faults = {}         # tid -> {raw index: mode}
        self.sched = None
        self.fine = False        # also stop inside the thread-local loops (every encode / decode call, every parser event)
        self.last = {}

    def tid(self):
        return getattr(self.local, "tid", 0)

    def gate(self, label, path):
        t = self.tid()
        lst = self.raw.setdefault(t, [])
        idx = len(lst)
        lst.append((label, real_os.path.basename(str(path)) if path is not None else ""))
        new_op = self.last.get(t) != GROUP.get(label, label)
        self.last[t] = GROUP.get(label, label)
        if self.sched is not None and label not in UNMODELLED and (new_op or (self.fine and label in LOCAL_LOOPS)):
            self.sched.arrive(t, GROUP.get(label, label))
        mode = self.faults.get(t, {}).get(idx)
        if mode is not None and label not in NOT_FAULTABLE:
            return mode
        return None

    def check(self, label, path):
        mode = self.gate(label, path)
        if mode is not None:
            raise Injected("injected failure at %s(%s)" % (label, path))


class FileProxy:
    def __init__(self, ctl, f, path):
        self._ctl, self._f, self._path = ctl, f, path

    def write(self, data):
        mode = self._ctl.gate("write", self._path)
        if mode == "partial":
            self._f.write(data[: len(data) // 2])
            self._f.flush()
            raise Injected("injected failure in the middle of write(%s)" % self._path)
        if mode is not None:
            raise Injected("injected failure at write(%s)" % self._path)
        return self._f.write(data)

    def readlines(self):
        self._ctl.check("readlines", self._path)
        return self._f.readlines()

    def __enter__(self):
        self._f.__enter__()
        return self

    def __exit__(self, *a):
        return self._f.__exit__(*a)

    def __getattr__(self, n):
        return getattr(self._f, n)


def make_open(ctl):
    def _open(path, mode="r", *a, **k):
        if str(path).endswith(SUFFIX):
            ctl.check("create" if "w" in mode else "read", path)
            return FileProxy(ctl, builtins.open(path, mode, *a, **k), path)
        return builtins.open(path, mode, *a, **k)
    return _open


class PathProxy:
    def __init__(self, ctl):
        self._ctl = ctl

    def isfile(self, p):
        if str(p).endswith(SUFFIX):
            self._ctl.check("isfile", p)
        return real_os.path.isfile(p)

    def exists(self, p):
        self._ctl.check("exists", p)
        return real_os.path.exists(p)

    def __getattr__(self, n):
        return getattr(real_os.path, n)


class OsProxy:
    def __init__(self, ctl, remove_label):
        self._ctl = ctl
        self._label = remove_label
        self.path = PathProxy(ctl)

    def remove(self, p):
        self._ctl.gate(self._label, p)
        return real_os.remove(p)

    def listdir(self, p):
        self._ctl.check("listdir", p)
        return sorted(real_os.listdir(p))

    def __getattr__(self, n):
        return getattr(real_os, n)


class ETProxy:
    def __init__(self, ctl):
        self._ctl = ctl

    def parse(self, source, *a, **k):
        self._ctl.check("xmlparse", source)
        return real_ET.parse(source, *a, **k)

    def iterparse(self, source, *a, **k):
        self._ctl.check("iterate", source)
        return IterProxy(self._ctl, real_ET.iterparse(source, *a, **k), source)

    def __getattr__(self, n):
        return getattr(real_ET, n)


class IterProxy:
    """the event iterator of ET.iterparse; in fine-grained runs every event is a possible switch point"""
    def __init__(self, ctl, it, source):
        self._ctl, self._it, self._source = ctl, it, source

    def __iter__(self):
        return self

    def __next__(self):
        if self._ctl.fine and self._ctl.sched is not None:
            self._ctl.sched.arrive(self._ctl.tid(), "iterate")
        return next(self._it)

    def __getattr__(self, n):
        return getattr(self._it, n)


class JsonProxy:
    def __init__(self, ctl):
        self._ctl = ctl

    def dumps(self, *a, **k):
        self._ctl.check("encode", None)
        return real_json.dumps(*a, **k)

    def loads(self, *a, **k):
        self._ctl.check("decode", None)
        return real_json.loads(*a, **k)

    def __getattr__(self, n):
        return getattr(real_json, n)


class Patched:
    """context manager: the parse path sees the proxies"""
    def __init__(self, ctl):
        self.ctl = ctl

    def __enter__(self):
        import opcua_tools.json_parser.parse as pm
        import opcua_tools.nodeset_parser as npm
        self.saved = []
        for mod, name, val in [
            (npm, "os", OsProxy(self.ctl, "remove")), (npm, "open", make_open(self.ctl)), (npm, "ET", ETProxy(self.ctl)),
            (npm, "json", JsonProxy(self.ctl)),
            (pm, "os", OsProxy(self.ctl, "wclean")), (pm, "open", make_open(self.ctl)), (pm, "ET", ETProxy(self.ctl)),
            (pm, "json", JsonProxy(self.ctl)),
        ]:
            self.saved.append((mod, name, mod.__dict__.get(name, None), name in mod.__dict__))
            setattr(mod, name, val)
        return self.ctl

    def __exit__(self, *a):
        for mod, name, old, had in self.saved:
            if had:
                setattr(mod, name, old)
            else:
                delattr(mod, name)
        return False


def hooks_present():
    """the names the proxies replace must exist and be used by the parse path — otherwise the interception is blind"""
    import opcua_tools.json_parser.parse as pm
    import opcua_tools.nodeset_parser as npm
    missing = []
    for mod, names in [(npm, ["os", "ET", "json"]), (pm, ["ET", "json"])]:
        for n in names:
            if n not in mod.__dict__:
                missing.append("%s.%s" % (mod.__name__, n))
    return missing


# -------------------------------------------------------------------------------------------------
# documents with a content id
# -------------------------------------------------------------------------------------------------
def doc_text(c, flags=()):
    """content id c: namespace urn:c<c>, one object n<c>.  flags: not_wf, bad_header, bad_body"""
    alias = "garbage-no-equals" if "bad_header" in flags else "i=47"
    # the NodeId texts are the same in every document (what differs is the namespace they denote and the names),
    # so that anything keyed by the text alone across calls shows
    nid = "ns=7;i=1000" if "bad_body" in flags else "ns=1;i=1000"
    t = ('<?xml version="1.0" encoding="utf-8"?>\n<UANodeSet xmlns="http://opcfoundation.org/UA/2011/03/UANodeSet.xsd">'
         '<NamespaceUris><Uri>urn:c%d</Uri></NamespaceUris>'
         '<Models><Model ModelUri="urn:c%d" Version="1.%d" PublicationDate="2020-01-01T00:00:00Z">'
         '<RequiredModel ModelUri="http://opcfoundation.org/UA/" Version="1.04" PublicationDate="2019-05-01T00:00:00Z"/></Model></Models>'
         '<Aliases><Alias Alias="HasComponent">%s</Alias></Aliases>'
         '<UAObject NodeId="%s" BrowseName="1:n%d"><DisplayName>n%d</DisplayName><References>'
         '<Reference ReferenceType="HasComponent" IsForward="false">i=85</Reference></References></UAObject>'
         '<UAVariable NodeId="ns=1;i=%d" BrowseName="1:v%d" DataType="i=6"><DisplayName>v%d</DisplayName><References/>'
         '<Value><Int32 xmlns="http://opcfoundation.org/UA/2008/02/Types.xsd">%d</Int32></Value></UAVariable>'
         '</UANodeSet>\n') % (c, c, c, alias, nid, c, c, 5000, c, c, c)
    if "not_wf" in flags:
        t = t[: len(t) // 2]
    return t


def outcome_of(fn, ctl, tid=0):
    """run fn(); canonical outcome: {'ok': {'body': c, 'header': h}} or {'err': kind}"""
    try:
        res = fn()
    except Injected:
        return {"err": "fault"}, None
    except real_ET.XMLSyntaxError:
        return {"err": "syntax"}, None
    except OSError:
        return {"err": "io"}, None
    except Exception as e:  # noqa: BLE001
        reached = [g for g, _ in ctl.raw.get(tid, [])]
        if "isfile" in reached:       # the phase of the file being parsed when it failed
            reached = reached[len(reached) - reached[::-1].index("isfile"):]
        kind = "element" if "iterate" in reached else "decode"
        return {"err": kind, "exc": type(e).__name__}, None
    return canon_result(res), res


def canon_result(res):
    import re
    nodes = res["nodes"]
    body = None
    for d in nodes["DisplayName"].tolist():
        m = re.fullmatch(r"n(\d+)", str(d))
        if m:
            body = int(m.group(1))
    header = None
    for u in res["namespaces"]:
        m = re.fullmatch(r"urn:c(\d+)", str(u))
        if m:
            header = int(m.group(1))
    return {"ok": {"body": body, "header": header}}


def fingerprint(res):
    n, r = res["nodes"], res["references"]
    return (tuple(n.columns), tuple(map(tuple, n.astype(str).values.tolist())),
            tuple(map(tuple, r.astype(str).values.tolist())), tuple(res["namespaces"]),
            real_json.dumps(res["models"], sort_keys=True, default=str))


def snapshot(d):
    """directory listing with content hashes"""
    out = {}
    for root, _, files in real_os.walk(d):
        for f in files:
            p = real_os.path.join(root, f)
            out[real_os.path.relpath(p, d)] = hashlib.sha256(builtins.open(p, "rb").read()).hexdigest()
    return out


def canon_trace(raw):
    """raw calls of one thread -> model operations (consecutive calls of one group are one operation)"""
    out = []
    for label, _ in raw:
        if label in UNMODELLED:
            out.append(None)          # an unmodelled call separates groups
            continue
        g = GROUP[label]
        if not out or out[-1] != g:
            out.append(g)
    return [x for x in out if x is not None]


def op_index_of_raw(raw, j):
    """index, in the canonical trace, of the operation the raw call j belongs to (None: unmodelled call)"""
    if raw[j][0] in UNMODELLED:
        return None
    return len(canon_trace(raw[: j + 1])) - 1


# -------------------------------------------------------------------------------------------------
# deterministic scheduler for threads (C20)
# -------------------------------------------------------------------------------------------------
class Scheduler:
    """Threads stop at every new operation; the controller lets exactly one of them perform its next
    operation (and everything up to its next stop).  Between two stops only one thread runs."""
    TIMEOUT = 60

    def __init__(self, n):
        self.n = n
        self.go = [threading.Semaphore(0) for _ in range(n)]
        self.arrived = [threading.Semaphore(0) for _ in range(n)]
        self.waiting_at = [None] * n
        self.finished = [False] * n
        self.executed = []        # (tid, op)

    # called from a worker thread at a gate
    def arrive(self, t, op):
        self.waiting_at[t] = op
        self.arrived[t].release()
        if not self.go[t].acquire(timeout=self.TIMEOUT):
            raise Infra("scheduler: thread %d never released" % t)
        self.executed.append((t, op))
        self.waiting_at[t] = None

    def finish(self, t):
        self.finished[t] = True
        self.arrived[t].release()

    # controller side
    def wait_arrival(self, t):
        if not self.arrived[t].acquire(timeout=self.TIMEOUT):
            raise Infra("scheduler: thread %d did not reach its next operation" % t)

    def run(self, targets, schedule, ctl):
        """targets: list of callables; returns per-thread results (value or exception)"""
        results = [None] * self.n

        def worker(t):
            ctl.local.tid = t
            try:
                results[t] = ("ok", targets[t]())
            except BaseException as e:  # noqa: BLE001
                results[t] = ("exc", e)
            finally:
                self.finish(t)

        threads = [threading.Thread(target=worker, args=(t,), daemon=True) for t in range(self.n)]
        for t in range(self.n):
            threads[t].start()
            self.wait_arrival(t)       # runs to its first stop (or finishes) before the next one starts
        for t in list(schedule) + [t for t in range(self.n) for _ in range(40)]:
            if self.finished[t] or self.waiting_at[t] is None:
                continue
            self.go[t].release()
            self.wait_arrival(t)
        for th in threads:
            th.join(timeout=self.TIMEOUT)
            if th.is_alive():
                raise Infra("scheduler: a worker thread is stuck")
        return results


ORDER = ["isfile", "xmlparse", "encode", "create", "write", "read", "remove", "decode", "iterate"]


def model_schedule(executed):
    """real execution order -> model schedule; operations the real run has no call for (an empty side
    file has no line to decode) are thread-local and are placed right before the thread's next one"""
    last = {}
    sched = []
    for t, op in executed:
        prev = last.get(t)
        if prev == op and op in ("encode", "decode", "iterate"):
            continue                  # a further stop inside a thread-local loop: same model operation
        if prev == "xmlparse" and op == "create":
            sched.append(t)
        if prev == "remove" and op == "iterate":
            sched.append(t)
        sched.append(t)
        last[t] = op
    return sched, last

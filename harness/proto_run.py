"""Interception of the file-system / XML / JSON operations of a parse call (C19, C20).

The real modules keep their code; what they *see* as `os`, `open`, `ET` and `json` is replaced, for the
duration of a run, by proxies that (1) record every call, (2) can make a chosen call raise instead of
being performed, (3) can hand control to a deterministic scheduler so that several threads perform their
operations in a prescribed order.  Nothing is changed in /repo (no hooks)."""
import builtins
import hashlib
import json as real_json
import os as real_os
import threading

import lxml.etree as real_ET

from core import Infra

SUFFIX = "_parsed.json"


class Injected(OSError):
    """the failure the harness makes an operation raise"""


class Interrupted(KeyboardInterrupt):
    """the interruption the harness delivers at an operation (modes "interrupt" / "partial-interrupt"):
    a call that is interrupted is a call that raises"""


# raw call label -> model operation
GROUP = {"isfile": "isfile", "xmlparse": "xmlparse", "encode": "encode", "create": "create", "write": "write",
         "wclean": "wclean", "read": "read", "readlines": "read", "remove": "remove", "decode": "decode",
         "iterate": "iterate", "event": "iterate"}
UNMODELLED = {"exists", "listdir", "stat"}  # look-ups of the *input* made outside the protocol steps
SWALLOWED = {"isfile", "stat"}              # os.path.isfile / exists turn a failing stat into the answer False
NOT_FAULTABLE = {"wclean", "remove", "event"}
MERGED = {"encode", "decode", "iterate", "write", "read"}   # several raw calls of these are one operation; two existence checks, creations or removals in a row are two
LOCAL_LOOPS = {"encode", "decode", "iterate", "event"}   # computation on data the thread owns; splitting it adds no shared-state access        # the deletion of the helper file itself (excluded by the property)


class Ctl:
    def __init__(self):
        self.local = threading.local()
        self.raw = {}            # tid -> [(label, basename)]
        self.faults = {}         # tid -> {raw index: mode}
        self.sched = None
        self.fine = False        # also stop inside the thread-local loops (every encode / decode call, every parser event)
        self.last = {}

    def tid(self):
        return getattr(self.local, "tid", 0)

    def active(self):
        return getattr(self.local, "active", False)

    def run(self, fn):
        """perform fn() as a call under observation (in the calling thread)"""
        self.local.active = True
        try:
            return fn()
        finally:
            self.local.active = False

    def gate(self, label, path):
        t = self.tid()
        lst = self.raw.setdefault(t, [])
        idx = len(lst)
        lst.append((label, real_os.path.basename(str(path)) if path is not None else ""))
        new_op = self.last.get(t) != GROUP.get(label, label) or GROUP.get(label, label) not in MERGED
        self.last[t] = GROUP.get(label, label)
        if self.sched is not None and label not in UNMODELLED and (new_op or (self.fine and label in LOCAL_LOOPS)):
            self.sched.arrive(t, GROUP.get(label, label))
        mode = self.faults.get(t, {}).get(idx)
        if mode is not None and label not in NOT_FAULTABLE:
            return mode
        return None

    def check(self, label, path):
        mode = self.gate(label, path)
        if mode is not None:
            raise (Interrupted if "interrupt" in mode else Injected)("injected failure at %s(%s)" % (label, path))


class FileProxy:
    def __init__(self, ctl, f, path):
        self._ctl, self._f, self._path = ctl, f, path

    def write(self, data):
        mode = self._ctl.gate("write", self._path)
        if mode is not None and mode.startswith("partial"):
            self._f.write(data[: len(data) // 2])
            self._f.flush()
            raise (Interrupted if "interrupt" in mode else Injected)("injected failure in the middle of write(%s)" % self._path)
        if mode is not None:
            raise (Interrupted if "interrupt" in mode else Injected)("injected failure at write(%s)" % self._path)
        return self._f.write(data)

    def writelines(self, lines):
        for l in lines:
            self.write(l)

    def readlines(self, *a):
        self._ctl.check("readlines", self._path)
        return self._f.readlines(*a)

    def read(self, *a):
        self._ctl.check("readlines", self._path)
        return self._f.read(*a)

    def readline(self, *a):
        self._ctl.check("readlines", self._path)
        return self._f.readline(*a)

    def __iter__(self):
        self._ctl.check("readlines", self._path)
        return iter(self._f)

    def __enter__(self):
        self._f.__enter__()
        return self

    def __exit__(self, *a):
        return self._f.__exit__(*a)

    def __getattr__(self, n):
        return getattr(self._f, n)


class IterProxy:
    """the event iterator of ET.iterparse; in fine-grained runs every event is a possible switch point"""
    def __init__(self, ctl, it, source):
        self._ctl, self._it, self._source = ctl, it, source

    def __iter__(self):
        return self

    def __next__(self):
        if self._ctl.fine and self._ctl.sched is not None:
            self._ctl.sched.arrive(self._ctl.tid(), "iterate")
        return next(self._it)

    def __getattr__(self, n):
        return getattr(self._it, n)


def caller_module(depth=2, limit=8):
    """name of the nearest opcua_tools module on the call stack (the interception is process-wide)"""
    import sys
    f = sys._getframe(depth)
    for _ in range(limit):
        if f is None:
            return ""
        name = f.f_globals.get("__name__", "")
        if name.startswith("opcua_tools"):
            return name
        f = f.f_back
    return ""


def in_scratch(p):
    return "opcua_verif_" in p


class Patched:
    """context manager.  The interception is process-wide (so that it does not depend on HOW the library reaches
    the operating system: `os.remove`, `from os import remove`, `pathlib.Path.unlink`, `open`, `io.open`, `Path.open`,
    `json.dumps` / `json.dump`, `ET.parse` / `from lxml.etree import parse` all end in one of the wrapped functions),
    but it only reacts inside a call started through `Ctl.run` (thread-local flag), to paths inside the harness's
    scratch directories, and — for the JSON / XML functions — to calls that come from an opcua_tools module."""
    def __init__(self, ctl):
        self.ctl = ctl

    def __enter__(self):
        import io
        import sys
        ctl = self.ctl
        self.restore = []
        o_stat, o_remove, o_unlink, o_open, o_listdir = real_os.stat, real_os.remove, real_os.unlink, builtins.open, real_os.listdir
        o_dumps, o_loads, o_dump, o_load = real_json.dumps, real_json.loads, real_json.dump, real_json.load
        o_parse, o_iterparse = real_ET.parse, real_ET.iterparse

        def fs(path):
            try:
                return real_os.fspath(path) if isinstance(path, (str, real_os.PathLike)) else None
            except TypeError:
                return None

        def w_stat(path, *a, **k):
            p = fs(path)
            if p is not None and ctl.active() and in_scratch(p):
                if p.endswith(SUFFIX):
                    ctl.check("isfile", p)
                elif p.endswith(".xml"):
                    ctl.check("stat", p)
            return o_stat(path, *a, **k)

        def mk_remove(orig):
            def w_remove(path, *a, **k):
                p = fs(path)
                if p is not None and ctl.active() and in_scratch(p) and p.endswith(SUFFIX):
                    ctl.gate("wclean" if caller_module().endswith("json_parser.parse") else "remove", p)
                return orig(path, *a, **k)
            return w_remove

        def w_open(path, mode="r", *a, **k):
            p = fs(path)
            if p is not None and ctl.active() and in_scratch(p) and p.endswith(SUFFIX):
                ctl.check("create" if any(c in mode for c in "wax+") else "read", p)
                return FileProxy(ctl, o_open(path, mode, *a, **k), p)
            return o_open(path, mode, *a, **k)

        def w_listdir(path=".", *a, **k):
            p = fs(path)
            if p is not None and ctl.active() and in_scratch(p):
                ctl.check("listdir", p)
                return sorted(o_listdir(path, *a, **k))
            return o_listdir(path, *a, **k)

        def mk_json(orig, label):
            def w(*a, **k):
                if ctl.active() and caller_module().startswith("opcua_tools"):
                    ctl.check(label, None)
                return orig(*a, **k)
            return w

        def w_parse(source, *a, **k):
            if ctl.active() and caller_module().startswith("opcua_tools") and fs(source) is not None and in_scratch(fs(source)):
                m = caller_module()
                # the XML read of the pre-processing is a protocol step; other readers of the input (namespace helpers) are not
                ctl.check("xmlparse" if m.endswith("json_parser.parse") else "exists", source)
            return o_parse(source, *a, **k)

        def w_iterparse(source, *a, **k):
            if ctl.active() and caller_module().startswith("opcua_tools") and fs(source) is not None and in_scratch(fs(source)):
                ctl.check("iterate", source)
                return IterProxy(ctl, o_iterparse(source, *a, **k), source)
            return o_iterparse(source, *a, **k)

        table = [(real_os, "stat", o_stat, w_stat), (real_os, "remove", o_remove, mk_remove(o_remove)), (real_os, "unlink", o_unlink, mk_remove(o_unlink)),
                 (real_os, "listdir", o_listdir, w_listdir), (builtins, "open", o_open, w_open), (io, "open", io.open, w_open),
                 (real_json, "dumps", o_dumps, mk_json(o_dumps, "encode")), (real_json, "dump", o_dump, mk_json(o_dump, "encode")),
                 (real_json, "loads", o_loads, mk_json(o_loads, "decode")), (real_json, "load", o_load, mk_json(o_load, "decode")),
                 (real_ET, "parse", o_parse, w_parse), (real_ET, "iterparse", o_iterparse, w_iterparse)]
        for obj, name, orig, new in table:
            self.restore.append((obj, name, getattr(obj, name)))
            setattr(obj, name, new)
        # names bound by `from x import y` in the library's modules
        originals = {id(orig): new for _, _, orig, new in table}
        for mname, mod in list(sys.modules.items()):
            if mod is not None and mname.startswith("opcua_tools"):
                for name, val in list(getattr(mod, "__dict__", {}).items()):
                    if callable(val) and id(val) in originals and not name.startswith("__"):
                        self.restore.append((mod, name, val))
                        setattr(mod, name, originals[id(val)])
        return ctl

    def __exit__(self, *a):
        for obj, name, old in reversed(self.restore):
            setattr(obj, name, old)
        return False


def hooks_present():
    """kept for the checks' preamble: the interception no longer depends on names in the library's modules"""
    return []


# -------------------------------------------------------------------------------------------------
# documents with a content id
# -------------------------------------------------------------------------------------------------
def doc_text(c, flags=()):
    """content id c: namespace urn:c<c>, one object n<c>.  flags: not_wf, bad_header, bad_body"""
    alias = "garbage-no-equals" if "bad_header" in flags else "i=47"
    # the alias name "Link" is the same in every document but stands for another reference type (depends on c)
    # the NodeId texts are the same in every document (what differs is the namespace they denote and the names),
    # so that anything keyed by the text alone across calls shows
    nid = "ns=7;i=1000" if "bad_body" in flags else "ns=1;i=1000"
    t = ('<?xml version="1.0" encoding="utf-8"?>\n<UANodeSet xmlns="http://opcfoundation.org/UA/2011/03/UANodeSet.xsd">'
         '<NamespaceUris><Uri>urn:c%d</Uri></NamespaceUris>'
         '<Models><Model ModelUri="urn:c%d" Version="1.%d" PublicationDate="2020-01-01T00:00:00Z">'
         '<RequiredModel ModelUri="http://opcfoundation.org/UA/" Version="1.04" PublicationDate="2019-05-01T00:00:00Z"/></Model></Models>'
         '<Aliases><Alias Alias="HasComponent">%s</Alias><Alias Alias="Link">%s</Alias></Aliases>'
         '<UAObject NodeId="%s" BrowseName="1:n%d"><DisplayName>n%d</DisplayName><References>'
         '<Reference ReferenceType="HasComponent" IsForward="false">i=85</Reference>'
         '<Reference ReferenceType="Link">i=84</Reference></References></UAObject>'
         '<UAVariable NodeId="ns=1;i=%d" BrowseName="1:v%d" DataType="i=6"><DisplayName>v%d</DisplayName><References/>'
         '<Value><Int32 xmlns="http://opcfoundation.org/UA/2008/02/Types.xsd">%d</Int32></Value></UAVariable>'
         '</UANodeSet>\n') % (c, c, c, alias, ["i=35", "i=46", "i=47", "i=40"][c % 4], nid, c, c, 5000, c, c, c)
    if "not_wf" in flags:
        t = t[: len(t) // 2]
    return t


def outcome_of(fn, ctl, tid=0):
    """run fn(); canonical outcome: {'ok': {'body': c, 'header': h}} or {'err': kind}"""
    try:
        res = ctl.run(fn)
    except (Injected, Interrupted):
        return {"err": "fault"}, None
    except real_ET.XMLSyntaxError:
        return {"err": "syntax"}, None
    except OSError:
        return {"err": "io"}, None
    except Exception as e:  # noqa: BLE001
        reached = [g for g, _ in ctl.raw.get(tid, [])]
        if "isfile" in reached:       # the phase of the file being parsed when it failed
            reached = reached[len(reached) - reached[::-1].index("isfile"):]
        kind = "element" if "iterate" in reached else "decode"
        return {"err": kind, "exc": type(e).__name__}, None
    return canon_result(res), res


def canon_result(res):
    import re
    nodes = res["nodes"]
    body = None
    for d in nodes["DisplayName"].tolist():
        m = re.fullmatch(r"n(\d+)", str(d))
        if m:
            body = int(m.group(1))
    header = None
    for u in res["namespaces"]:
        m = re.fullmatch(r"urn:c(\d+)", str(u))
        if m:
            header = int(m.group(1))
    return {"ok": {"body": body, "header": header}}


def fingerprint(res):
    n, r = res["nodes"], res["references"]
    return (tuple(n.columns), tuple(map(tuple, n.astype(str).values.tolist())),
            tuple(map(tuple, r.astype(str).values.tolist())), tuple(res["namespaces"]),
            real_json.dumps(res["models"], sort_keys=True, default=str))


def snapshot(d):
    """directory listing with content hashes"""
    out = {}
    for root, _, files in real_os.walk(d):
        for f in files:
            p = real_os.path.join(root, f)
            out[real_os.path.relpath(p, d)] = hashlib.sha256(builtins.open(p, "rb").read()).hexdigest()
    return out


def canon_trace(raw):
    """raw calls of one thread -> model operations (consecutive calls of one group are one operation)"""
    out = []
    for label, _ in raw:
        if label in UNMODELLED:
            out.append(None)          # an unmodelled call separates groups
            continue
        g = GROUP[label]
        if not out or out[-1] != g or g not in MERGED:
            out.append(g)
    return [x for x in out if x is not None]


def op_index_of_raw(raw, j):
    """index, in the canonical trace, of the operation the raw call j belongs to (None: unmodelled call)"""
    if raw[j][0] in UNMODELLED:
        return None
    return len(canon_trace(raw[: j + 1])) - 1


# -------------------------------------------------------------------------------------------------
# deterministic scheduler for threads (C20)
# -------------------------------------------------------------------------------------------------
class Scheduler:
    """Threads stop at every new operation; the controller lets exactly one of them perform its next
    operation (and everything up to its next stop).  Between two stops only one thread runs."""
    TIMEOUT = 60

    def __init__(self, n):
        self.n = n
        self.go = [threading.Semaphore(0) for _ in range(n)]
        self.arrived = [threading.Semaphore(0) for _ in range(n)]
        self.waiting_at = [None] * n
        self.finished = [False] * n
        self.executed = []        # (tid, op)

    # called from a worker thread at a gate
    def arrive(self, t, op):
        self.waiting_at[t] = op
        self.arrived[t].release()
        if not self.go[t].acquire(timeout=self.TIMEOUT):
            raise Infra("scheduler: thread %d never released" % t)
        self.executed.append((t, op))
        self.waiting_at[t] = None

    def finish(self, t):
        self.finished[t] = True
        self.arrived[t].release()

    # controller side
    def wait_arrival(self, t):
        if not self.arrived[t].acquire(timeout=self.TIMEOUT):
            raise Infra("scheduler: thread %d did not reach its next operation" % t)

    def run(self, targets, schedule, ctl):
        """targets: list of callables; returns per-thread results (value or exception)"""
        results = [None] * self.n

        def worker(t):
            ctl.local.tid = t
            try:
                self.arrive(t, "begin")          # when a call STARTS is part of the schedule too
                results[t] = ("ok", ctl.run(targets[t]))
            except BaseException as e:  # noqa: BLE001
                results[t] = ("exc", e)
            finally:
                self.finish(t)

        threads = [threading.Thread(target=worker, args=(t,), daemon=True) for t in range(self.n)]
        for t in range(self.n):
            threads[t].start()
            self.wait_arrival(t)       # runs to its first stop (or finishes) before the next one starts
        def one(t):
            if self.finished[t] or self.waiting_at[t] is None:
                return False
            self.go[t].release()
            self.wait_arrival(t)
            return True
        for item in list(schedule) + [t for t in range(self.n) for _ in range(40)]:
            if isinstance(item, (tuple, list)):
                # a policy step (t, op): let t run until it is about to do `op` (or until its end when op is None) —
                # independent of how many operations the code under test performs on the way
                t, op = item
                for _ in range(400):
                    if self.finished[t] or self.waiting_at[t] == op or not one(t):
                        break
            else:
                one(item)
        for th in threads:
            th.join(timeout=self.TIMEOUT)
            if th.is_alive():
                raise Infra("scheduler: a worker thread is stuck")
        return results


ORDER = ["isfile", "xmlparse", "encode", "create", "write", "read", "remove", "decode", "iterate"]


def model_schedule(executed):
    """real execution order -> model schedule; operations the real run has no call for (an empty side
    file has no line to decode) are thread-local and are placed right before the thread's next one"""
    last = {}
    sched = []
    for t, op in executed:
        if op == "begin":
            continue                  # the start of a call is not an operation of the protocol
        prev = last.get(t)
        if prev == op and op in ("encode", "decode", "iterate"):
            continue                  # a further stop inside a thread-local loop: same model operation
        if prev == "xmlparse" and op == "create":
            sched.append(t)
        if prev == "remove" and op == "iterate":
            sched.append(t)
        sched.append(t)
        last[t] = op
    return sched, last

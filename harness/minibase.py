"""A ~30-node synthetic OPC UA base namespace and helpers to write document sets to a scratch directory."""
import os
import shutil
import tempfile

UA = "http://opcfoundation.org/UA/"
BASE = '''<?xml version="1.0" encoding="utf-8"?>
<UANodeSet xmlns="http://opcfoundation.org/UA/2011/03/UANodeSet.xsd" xmlns:xsd="http://www.w3.org/2001/XMLSchema" xmlns:xsi="http://www.w3.org/2001/XMLSchema-instance">
<Models><Model ModelUri="http://opcfoundation.org/UA/" Version="1.04" PublicationDate="2019-05-01T00:00:00Z"/></Models>
<Aliases>
<Alias Alias="Int32">i=6</Alias><Alias Alias="String">i=12</Alias><Alias Alias="HasSubtype">i=45</Alias><Alias Alias="HasProperty">i=46</Alias><Alias Alias="HasComponent">i=47</Alias><Alias Alias="HasTypeDefinition">i=40</Alias><Alias Alias="HasModellingRule">i=37</Alias><Alias Alias="Organizes">i=35</Alias>
</Aliases>
<UAReferenceType NodeId="i=31" BrowseName="References" IsAbstract="true" Symmetric="true"><DisplayName>References</DisplayName><References/></UAReferenceType>
<UAReferenceType NodeId="i=32" BrowseName="NonHierarchicalReferences" IsAbstract="true"><DisplayName>NonHierarchicalReferences</DisplayName><References><Reference ReferenceType="HasSubtype" IsForward="false">i=31</Reference></References></UAReferenceType>
<UAReferenceType NodeId="i=33" BrowseName="HierarchicalReferences" IsAbstract="true"><DisplayName>HierarchicalReferences</DisplayName><References><Reference ReferenceType="HasSubtype" IsForward="false">i=31</Reference></References></UAReferenceType>
<UAReferenceType NodeId="i=34" BrowseName="HasChild" IsAbstract="true"><DisplayName>HasChild</DisplayName><References><Reference ReferenceType="HasSubtype" IsForward="false">i=33</Reference></References></UAReferenceType>
<UAReferenceType NodeId="i=35" BrowseName="Organizes"><DisplayName>Organizes</DisplayName><References><Reference ReferenceType="HasSubtype" IsForward="false">i=33</Reference></References><InverseName>OrganizedBy</InverseName></UAReferenceType>
<UAReferenceType NodeId="i=44" BrowseName="Aggregates" IsAbstract="true"><DisplayName>Aggregates</DisplayName><References><Reference ReferenceType="HasSubtype" IsForward="false">i=34</Reference></References></UAReferenceType>
<UAReferenceType NodeId="i=45" BrowseName="HasSubtype"><DisplayName>HasSubtype</DisplayName><References><Reference ReferenceType="HasSubtype" IsForward="false">i=34</Reference></References></UAReferenceType>
<UAReferenceType NodeId="i=46" BrowseName="HasProperty"><DisplayName>HasProperty</DisplayName><References><Reference ReferenceType="HasSubtype" IsForward="false">i=44</Reference></References></UAReferenceType>
<UAReferenceType NodeId="i=47" BrowseName="HasComponent"><DisplayName>HasComponent</DisplayName><References><Reference ReferenceType="HasSubtype" IsForward="false">i=44</Reference></References></UAReferenceType>
<UAReferenceType NodeId="i=40" BrowseName="HasTypeDefinition"><DisplayName>HasTypeDefinition</DisplayName><References><Reference ReferenceType="HasSubtype" IsForward="false">i=32</Reference></References></UAReferenceType>
<UAReferenceType NodeId="i=37" BrowseName="HasModellingRule"><DisplayName>HasModellingRule</DisplayName><References><Reference ReferenceType="HasSubtype" IsForward="false">i=32</Reference></References></UAReferenceType>
<UADataType NodeId="i=24" BrowseName="BaseDataType" IsAbstract="true"><DisplayName>BaseDataType</DisplayName><References/></UADataType>
<UADataType NodeId="i=26" BrowseName="Number" IsAbstract="true"><DisplayName>Number</DisplayName><References><Reference ReferenceType="HasSubtype" IsForward="false">i=24</Reference></References></UADataType>
{datatypes}
<UADataType NodeId="i=29" BrowseName="Enumeration" IsAbstract="true"><DisplayName>Enumeration</DisplayName><References><Reference ReferenceType="HasSubtype" IsForward="false">i=24</Reference></References></UADataType>
<UADataType NodeId="i=22" BrowseName="Structure" IsAbstract="true"><DisplayName>Structure</DisplayName><References><Reference ReferenceType="HasSubtype" IsForward="false">i=24</Reference></References></UADataType>
<UADataType NodeId="i=884" BrowseName="Range"><DisplayName>Range</DisplayName><References><Reference ReferenceType="HasSubtype" IsForward="false">i=22</Reference></References></UADataType>
<UADataType NodeId="i=887" BrowseName="EUInformation"><DisplayName>EUInformation</DisplayName><References><Reference ReferenceType="HasSubtype" IsForward="false">i=22</Reference></References></UADataType>
<UAObjectType NodeId="i=58" BrowseName="BaseObjectType"><DisplayName>BaseObjectType</DisplayName><References/></UAObjectType>
<UAObjectType NodeId="i=61" BrowseName="FolderType"><DisplayName>FolderType</DisplayName><References><Reference ReferenceType="HasSubtype" IsForward="false">i=58</Reference></References></UAObjectType>
<UAObjectType NodeId="i=77" BrowseName="ModellingRuleType"><DisplayName>ModellingRuleType</DisplayName><References><Reference ReferenceType="HasSubtype" IsForward="false">i=58</Reference></References></UAObjectType>
<UAVariableType NodeId="i=62" BrowseName="BaseVariableType" IsAbstract="true" ValueRank="-2"><DisplayName>BaseVariableType</DisplayName><References/></UAVariableType>
<UAVariableType NodeId="i=63" BrowseName="BaseDataVariableType" ValueRank="-2"><DisplayName>BaseDataVariableType</DisplayName><References><Reference ReferenceType="HasSubtype" IsForward="false">i=62</Reference></References></UAVariableType>
<UAVariableType NodeId="i=68" BrowseName="PropertyType" ValueRank="-2"><DisplayName>PropertyType</DisplayName><References><Reference ReferenceType="HasSubtype" IsForward="false">i=62</Reference></References></UAVariableType>
<UAObject NodeId="i=78" BrowseName="Mandatory" SymbolicName="ModellingRule_Mandatory"><DisplayName>Mandatory</DisplayName><References><Reference ReferenceType="HasTypeDefinition">i=77</Reference></References></UAObject>
<UAObject NodeId="i=84" BrowseName="Root" SymbolicName="RootFolder"><DisplayName>Root</DisplayName><Description>The root of the server address space.</Description><References><Reference ReferenceType="HasTypeDefinition">i=61</Reference></References></UAObject>
<UAObject NodeId="i=85" BrowseName="Objects" SymbolicName="ObjectsFolder"><DisplayName>Objects</DisplayName><References><Reference ReferenceType="Organizes" IsForward="false">i=84</Reference><Reference ReferenceType="HasTypeDefinition">i=61</Reference></References></UAObject>
</UANodeSet>
'''
# the 25 built-in types: name -> numeric id in namespace 0 (as in the real base nodeset)
BUILTIN = {"Boolean": 1, "SByte": 2, "Byte": 3, "Int16": 4, "UInt16": 5, "Int32": 6, "UInt32": 7, "Int64": 8, "UInt64": 9,
           "Float": 10, "Double": 11, "String": 12, "DateTime": 13, "Guid": 14, "ByteString": 15, "XmlElement": 16,
           "NodeId": 17, "ExpandedNodeId": 18, "StatusCode": 19, "QualifiedName": 20, "LocalizedText": 21,
           "ExtensionObject": 23, "DataValue": 25, "Variant": 27, "DiagnosticInfo": 28}   # ids differ from VariantType numbers
NUMBERS = {"SByte", "Byte", "Int16", "UInt16", "Int32", "UInt32", "Int64", "UInt64", "Float", "Double"}


def base_xml():
    dts = []
    for nm, i in BUILTIN.items():
        parent = 26 if nm in NUMBERS else 24
        dts.append('<UADataType NodeId="i=%d" BrowseName="%s"><DisplayName>%s</DisplayName><References><Reference ReferenceType="HasSubtype" IsForward="false">i=%d</Reference></References></UADataType>' % (i, nm, nm, parent))
    return BASE.replace("{datatypes}", "\n".join(dts))


# ids of the base nodes, for generators that reference them
BASE_IDS = [31, 32, 33, 34, 35, 44, 45, 46, 47, 40, 37, 24, 26, 29, 22, 884, 887, 58, 61, 77, 62, 63, 68, 78, 84, 85] + list(BUILTIN.values())


class Scratch:
    """a scratch directory outside /repo and /verif, removed on exit"""
    def __init__(self):
        self.dir = tempfile.mkdtemp(prefix="opcua_verif_")

    def sub(self, name):
        d = os.path.join(self.dir, name)
        os.makedirs(d, exist_ok=True)
        return d

    def write(self, d, files, with_base=True):
        if with_base:
            open(os.path.join(d, "Opc.Ua.NodeSet2.xml"), "w", encoding="utf-8").write(base_xml())
        for name, text in files.items():
            open(os.path.join(d, name), "w", encoding="utf-8").write(text)
        return d

    def close(self):
        shutil.rmtree(self.dir, ignore_errors=True)

    def __enter__(self):
        return self

    def __exit__(self, *a):
        self.close()


DOC_A = '''<?xml version="1.0" encoding="utf-8"?>
<UANodeSet xmlns="http://opcfoundation.org/UA/2011/03/UANodeSet.xsd">
<NamespaceUris><Uri>http://a.example/types</Uri></NamespaceUris>
<Models><Model ModelUri="http://a.example/types" Version="1.0.0" PublicationDate="2020-01-01T00:00:00Z"><RequiredModel ModelUri="http://opcfoundation.org/UA/" Version="1.04" PublicationDate="2019-05-01T00:00:00Z"/></Model></Models>
<Aliases><Alias Alias="HasSubtype">i=45</Alias><Alias Alias="HasProperty">i=46</Alias><Alias Alias="HasComponent">i=47</Alias><Alias Alias="Int32">i=6</Alias><Alias Alias="Double">i=11</Alias><Alias Alias="LocalizedText">i=21</Alias><Alias Alias="MyEnum">ns=1;i=3000</Alias></Aliases>
<UAObjectType NodeId="ns=1;i=1000" BrowseName="1:PumpType"><DisplayName>PumpType</DisplayName><Description>A &lt;pump&gt; &amp; more</Description><References><Reference ReferenceType="HasSubtype" IsForward="false">i=58</Reference><Reference ReferenceType="HasComponent">ns=1;i=1001</Reference></References></UAObjectType>
<UAVariable NodeId="ns=1;i=1001" BrowseName="1:Speed" ParentNodeId="ns=1;i=1000" DataType="Double" AccessLevel="3" ValueRank="-1"><DisplayName>Speed</DisplayName><References><Reference ReferenceType="i=40">i=63</Reference><Reference ReferenceType="i=37">i=78</Reference><Reference ReferenceType="HasComponent" IsForward="false">ns=1;i=1000</Reference></References><Value><Double xmlns="http://opcfoundation.org/UA/2008/02/Types.xsd">1.5</Double></Value></UAVariable>
<UADataType NodeId="ns=1;i=3000" BrowseName="1:MyEnum"><DisplayName>MyEnum</DisplayName><References><Reference ReferenceType="HasSubtype" IsForward="false">i=29</Reference><Reference ReferenceType="HasProperty">ns=1;i=3001</Reference></References></UADataType>
<UAVariable NodeId="ns=1;i=3001" BrowseName="EnumStrings" ParentNodeId="ns=1;i=3000" DataType="LocalizedText" ValueRank="1"><DisplayName>EnumStrings</DisplayName><References><Reference ReferenceType="i=40">i=68</Reference></References><Value><ListOfLocalizedText xmlns="http://opcfoundation.org/UA/2008/02/Types.xsd"><LocalizedText><Locale>en</Locale><Text>Off</Text></LocalizedText><LocalizedText><Locale>en</Locale><Text>On</Text></LocalizedText></ListOfLocalizedText></Value></UAVariable>
</UANodeSet>
'''
DOC_B = '''<?xml version="1.0" encoding="utf-8"?>
<uax:UANodeSet xmlns:uax="http://opcfoundation.org/UA/2011/03/UANodeSet.xsd" xmlns:t="http://opcfoundation.org/UA/2008/02/Types.xsd">
<uax:NamespaceUris><uax:Uri>http://b.example/inst</uax:Uri><uax:Uri>http://a.example/types</uax:Uri></uax:NamespaceUris>
<uax:Models><uax:Model ModelUri="http://b.example/inst" Version="2.0" PublicationDate="2021-01-01T00:00:00Z"><uax:RequiredModel ModelUri="http://opcfoundation.org/UA/" Version="1.04" PublicationDate="2019-05-01T00:00:00Z"/><uax:RequiredModel ModelUri="http://a.example/types" Version="1.0.0" PublicationDate="2020-01-01T00:00:00Z"/></uax:Model></uax:Models>
<uax:Aliases><uax:Alias Alias="HasComponent">i=47</uax:Alias><uax:Alias Alias="MyEnum">ns=2;i=3000</uax:Alias></uax:Aliases>
<uax:UAObject NodeId="ns=1;s=Pump;1=x" BrowseName="1:Pump &lt;1&gt;" ParentNodeId="i=85"><uax:DisplayName>Pump 1  </uax:DisplayName><uax:References><uax:Reference ReferenceType="i=40">ns=2;i=1000</uax:Reference><uax:Reference ReferenceType="i=35" IsForward="false">i=85</uax:Reference><uax:Reference ReferenceType="HasComponent">ns=1;i=2</uax:Reference></uax:References></uax:UAObject>
<uax:UAVariable NodeId="ns=1;i=2" BrowseName="2:Speed" ParentNodeId="ns=1;s=Pump;1=x" DataType="i=11"><uax:DisplayName>Speed</uax:DisplayName><uax:References><uax:Reference ReferenceType="i=40">i=63</uax:Reference></uax:References><uax:Value><t:Double>2.5</t:Double></uax:Value></uax:UAVariable>
<uax:UAVariable NodeId="ns=1;i=3" BrowseName="1:Mode" ParentNodeId="ns=1;s=Pump;1=x" DataType="MyEnum"><uax:DisplayName>Mode</uax:DisplayName><uax:References><uax:Reference ReferenceType="i=40">i=63</uax:Reference><uax:Reference ReferenceType="HasComponent" IsForward="false">ns=1;s=Pump;1=x</uax:Reference></uax:References><uax:Value><t:Int32>1</t:Int32></uax:Value></uax:UAVariable>
</uax:UANodeSet>
'''

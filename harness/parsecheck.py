"""Shared exploration for C01–C04: generated document sets parsed by the real code and by the model,
with the abstract graph as the oracle.  `focus` selects which observables a property looks at."""
import json

import docs as D
import minibase
import parse_run as P
import values

UA = minibase.UA


def canon_xml(s):
    import lxml.etree as ET
    try:
        e = ET.fromstring(s)
        e.tail = None
        return ET.tostring(e, method="c14n")
    except Exception:  # noqa: BLE001
        return s


def norm_value(v):
    """what the property promises about a typed Value: text modulo outer whitespace, empty = null"""
    if v is None:
        return None
    v = dict(v)
    t = v["t"]
    if t == "PyNone":
        return None            # a Value cell holding Python None is "no value", like pd.NA
    if t in ("String", "Guid"):
        s = v["v"]
        s = None if s is None else s.strip()
        v["v"] = s or None
    elif t == "ByteString":
        v["v"] = v["v"] or None
    elif t in ("Float", "Double"):
        v["v"] = None if v["v"] is None else repr(float(v["v"]))
    elif t == "LocalizedText":
        v["text"] = v["text"] or None
    elif t == "ListOf":
        v["items"] = [norm_value(x) for x in v["items"]]
    elif t == "XmlElement":
        v["v"] = canon_xml(v["v"]).decode() if isinstance(canon_xml(v["v"]), bytes) else v["v"]
    elif t == "EngineeringUnits":
        v["display"] = dict(v["display"], text=v["display"]["text"] or None)
        v["description"] = dict(v["description"], text=v["description"]["text"] or None)
        v["uri"] = v["uri"].rstrip()
    elif t == "EURange":
        v["low"], v["high"] = repr(float(v["low"])), repr(float(v["high"]))
    return v


def expected_tables(g):
    rows = D.expected_rows(g)
    refs = sorted(json.dumps([list(a), list(b), list(c)]) for (a, b, c) in g["refs"] if any(x in g["nodes"] for x in (a, b)))
    return rows, refs


def resolve_rows(io):
    ns = io["namespaces"]
    out = []
    for r in io["nodes"]:
        attrs = dict(r["attrs"])
        for k, src in (("DataType", "dt"), ("ParentNodeId", "parent"), ("MethodDeclarationId", "md")):
            if r[src] is not None:
                attrs[k] = P.resolve(ns, r[src])
        bns = r["browse_ns"]
        out.append({"cls": r["cls"], "id": P.resolve(ns, r["id"]), "browse": r["browse"],
                    "browse_ns": None if bns is None else (ns[bns] if 0 <= bns < len(ns) else "<out of range>"),
                    "display": r["display"], "description": r["description"], "attrs": attrs, "value": r.get("value")})
    return out


def resolve_refs(io):
    ns = io["namespaces"]
    return sorted(json.dumps([P.resolve(ns, a), P.resolve(ns, b), P.resolve(ns, c)]) for a, b, c in io["refs"])


def row_matches(exp, got):
    diffs = []
    for k in ("cls", "id", "browse", "browse_ns", "display", "description"):
        if exp[k] != got[k]:
            diffs.append(k)
    ea = {k: v for k, v in exp["attrs"].items() if not (k in ("IsAbstract", "Symmetric") and v is False)}
    ga = {k: v for k, v in got["attrs"].items() if not (k in ("IsAbstract", "Symmetric") and v is False)}
    if ea != ga:
        diffs.append("attrs")
    if norm_value(exp["value"]) != norm_value(got["value"]):
        diffs.append("value")
    return diffs


def check_set(run, scratch, g, files, caller, focus, name, model=True, known=None):
    """returns the canonical implementation output (or None when a violation was recorded)"""
    d, paths = P.write_set(scratch, name, files)
    io = P.impl_parse_files(paths, caller)
    infos = [D.infoset(open(p, encoding="utf-8").read()) for p in paths]
    case = {"files": {k: files[k] for k in sorted(files)}, "caller": caller}
    run.compared += 1
    mo = None
    if model:
        op = {"op": "parse.files", "docs": infos}
        if caller is not None:
            op["caller"] = caller
        mo = run.driver.ask(op)
    if "err" in io:
        if mo is not None and "err" in mo:
            return None                         # both reject: outside every property's domain unless the caller says otherwise
        run.violation(case, {"what": "parse_xml_files raised on a well-formed document set", "impl": io,
                             "call": "opcua_tools.parse_xml_files(files, namespaces)"})
        return None
    exp_rows, exp_refs = expected_tables(g)
    got_rows = resolve_rows(io)
    if len(paths) == 1 and caller is None:
        # the single-file entry point parse_xml promises the same tables as parse_xml_files on that one file
        io1 = P.impl_parse_one(paths[0])
        if "err" in io1:
            run.violation(case, {"what": "parse_xml raised on a document that parse_xml_files accepts", "impl": io1, "call": "opcua_tools.parse_xml(file)"})
            return None
        for what, a, b in (("nodes", resolve_rows(io1), got_rows), ("references", resolve_refs(io1), resolve_refs(io)),
                           ("lookup / ids", [io1.get("lookup"), io1.get("ids"), io1.get("nrefs")], [io.get("lookup"), io.get("ids"), io.get("nrefs")])):
            if a != b:
                run.violation(case, {"what": "parse_xml(file) and parse_xml_files([file]) give different %s" % what,
                                     "parse_xml": str(a)[:600], "parse_xml_files": str(b)[:600], "call": "opcua_tools.parse_xml(file)"})
                return None
    # ---- property predicates on the real output
    if "nodes" in focus:
        repeat = {json.dumps(list(k_)): v_ for k_, v_ in g.get("repeat", {}).items()}
        n_elements = len(exp_rows) + sum(repeat.values())
        if len(got_rows) != n_elements:
            run.violation(case, {"what": "number of node rows != number of node elements", "impl": len(got_rows), "expected": n_elements})
            return None
        # rows come in file order then document order; match by key
        by_key = {}
        for r in got_rows:
            by_key.setdefault(json.dumps(r["id"]), []).append(r)
        for k, e in exp_rows.items():
            cands = by_key.get(json.dumps(list(k)), [])
            if len(cands) != 1 + repeat.get(json.dumps(list(k)), 0):
                run.violation(case, {"what": "a node declared by %d element(s) has %d rows" % (1 + repeat.get(json.dumps(list(k)), 0), len(cands)), "node": list(k)})
                return None
            diffs = row_matches(e, cands[0])
            for c_ in cands[1:]:
                diffs = diffs or row_matches(e, c_)
            if diffs:
                fids = known(e, cands[0], diffs) if known else None
                if fids and all(run.known(f_) for f_ in fids):
                    for f_ in fids:
                        run.count("known:" + f_)
                    continue
                run.violation(case, {"what": "row differs from the node element in: " + ",".join(diffs), "impl": cands[0], "expected": e,
                                     "call": "opcua_tools.parse_xml_files(files, namespaces)['nodes']"})
                return None
    if "refs" in focus:
        got = resolve_refs(io)
        if got != exp_refs:
            missing = [x for x in exp_refs if x not in got][:5]
            extra = [x for x in got if x not in exp_refs][:5]
            dup = sorted({x for x in got if got.count(x) > 1})[:5]
            run.violation(case, {"what": "references table != declared relation", "missing": missing, "invented": extra, "duplicated": dup,
                                 "call": "opcua_tools.parse_xml_files(files, namespaces)['references']"})
            return None
    if "namespaces" in focus:
        ns = io["namespaces"]
        want_uris = {u for i in infos for u in i["uris"]}
        problems = []
        if caller is None or (caller and caller[0] == UA):
            if not ns or ns[0] != UA:
                problems.append("index 0 is not the OPC UA namespace")
        if caller is not None and ns[:len(caller)] != caller:
            problems.append("caller-supplied list is not kept as a prefix")
        for u in want_uris | {UA}:
            c = ns.count(u)
            if c != 1 and not (caller is not None and caller.count(u) > 1):
                problems.append("URI %r occurs %d times" % (u, c))
        if problems:
            run.violation(case, {"what": "; ".join(problems), "impl": ns, "call": "parse_xml_files(...)['namespaces']"})
            return None
    if "ids" in focus:
        lk = io["lookup"]
        problems = []
        if len({json.dumps(x) for x in lk}) != len(lk):
            problems.append("lookup table maps two ids to one NodeId")
        ids = [r["int_id"] for r in io["nodes"]]
        if len(set(ids)) != len(ids) or any(i is None for i in ids):
            problems.append("node rows do not have unique ids")
        for r in io["nodes"]:
            if r["int_id"] is not None and not (0 <= r["int_id"] < len(lk) and lk[r["int_id"]] == r["id"]):
                problems.append("lookup[id] != NodeId for %r" % (r["id"],))
                break
        for t in io["nrefs"]:
            if any(x is None or not (0 <= x < len(lk)) for x in t):
                problems.append("reference id outside the lookup table: %r" % (t,))
                break
        if problems:
            run.violation(case, {"what": "; ".join(problems), "call": "parse_xml_files(...)['lookup_df'] / ids"})
            return None
    # ---- correspondence with the model on the focused observables
    if mo is not None:
        if "err" in mo:
            run.disagree(case, mo, {"ok": True})
            return io
        dis = []
        if "nodes" in focus and [P.strip_row(r) for r in io["nodes"]] != P.model_rows(mo):
            dis.append("nodes")
        if "refs" in focus and sorted(map(json.dumps, io["refs"])) != sorted(map(json.dumps, mo["refs"])):
            dis.append("refs")
        if "namespaces" in focus and io["namespaces"] != mo["namespaces"]:
            dis.append("namespaces")
        if "ids" in focus and (io["lookup"] != mo["lookup"] or io["ids"] != mo["ids"] or sorted(map(json.dumps, io["nrefs"])) != sorted(map(json.dumps, mo["nrefs"]))):
            dis.append("ids")
        if "models" in focus and io["models"] != mo["models"]:
            dis.append("models")
        if dis:
            run.disagree(case, {"differs_in": dis, "model_namespaces": mo.get("namespaces")}, {"namespaces": io["namespaces"]})
    return io
